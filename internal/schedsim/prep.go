// Package schedsim drives the Ferret compiler inside the deterministic
// scheduler (engine A of DESIGN.md): it builds the simulated compiler from the
// current working tree of /repo, generates projects, runs seeded schedules,
// map orders and fault plans, and applies the oracles of C13, C14 and C15.
package schedsim

import (
	"encoding/json"
	"fmt"
	"os"
	"path/filepath"
	"strings"
	"sync"
	"time"

	"verif/internal/core"
)

// Build is a prepared scratch build of the working tree.
type Build struct {
	S        *core.Scratch
	Plain    string // unrewritten compiler binary
	Sim      string // simulated compiler binary
	Libs     string // FERRET_LIBS_PATH (libs of the plain copy, runtime library built)
	Stub     string // stand-in for as/ld (creates its -o file)
	Rewrite  map[string]any
	RunsDir  string
	runSeq   int
	mu       sync.Mutex
	BuildSec float64
}

func skipCopy(rel string, info os.FileInfo) bool {
	// top-level build products and scratch output of the repository itself
	if !strings.Contains(rel, "/") && !info.IsDir() {
		if info.Mode()&0111 != 0 && !strings.HasSuffix(rel, ".sh") {
			return true // stray executables (app, ferret, ...)
		}
	}
	if rel == "smoke_test/bin" || rel == "examples/bin" || rel == "gen_keep" {
		return true
	}
	return false
}

// Prepare copies /repo's working tree, builds the runtime library, the plain
// compiler and the simulated compiler. wantPlain=false skips the plain build.
func Prepare(tag string, wantPlain bool) (*Build, error) { return PrepareOpt(tag, wantPlain, true) }

// PrepareOpt is Prepare with the simulated build optional (engine C only needs
// the plain compiler and the runtime library).
func PrepareOpt(tag string, wantPlain, wantSim bool) (*Build, error) {
	t0 := time.Now()
	s, err := core.NewScratch(tag)
	if err != nil {
		return nil, err
	}
	b := &Build{S: s, RunsDir: filepath.Join(s.Dir, "runs")}
	os.MkdirAll(b.RunsDir, 0755)
	env := core.GoEnv()
	verif := core.VerifDir()

	plainSrc := filepath.Join(s.Dir, "plain")
	simSrc := filepath.Join(s.Dir, "sim")
	if err := core.CopyTree(core.RepoDir, plainSrc, skipCopy); err != nil {
		return b, fmt.Errorf("copy repo: %w", err)
	}
	if wantSim {
		if err := core.CopyTree(plainSrc, simSrc, nil); err != nil {
			return b, fmt.Errorf("copy repo: %w", err)
		}
	}

	b.Stub = filepath.Join(s.Dir, "toolstub")
	if out, err := core.Run(s.Dir, env, 2*time.Minute, "gcc", "-static", "-Os", "-o", b.Stub, filepath.Join(verif, "stub", "toolstub.c")); err != nil {
		if out2, err2 := core.Run(s.Dir, env, 2*time.Minute, "gcc", "-Os", "-o", b.Stub, filepath.Join(verif, "stub", "toolstub.c")); err2 != nil {
			return b, fmt.Errorf("tool stub build failed: %v\n%s%s", err, out, out2)
		}
	}

	var wg sync.WaitGroup
	var errPlain, errSim error
	wg.Add(2)
	go func() {
		defer wg.Done()
		// runtime library + bundled tool chain, as the repository's own bootstrap does it
		if out, err := core.Run(plainSrc, env, 10*time.Minute, "go", "run", "./tools"); err != nil {
			errPlain = fmt.Errorf("bootstrap (go run ./tools) failed: %v\n%s", err, out)
			return
		}
		b.Libs = filepath.Join(plainSrc, "libs")
		if wantPlain {
			b.Plain = filepath.Join(s.Dir, "ferret")
			if out, err := core.Run(plainSrc, env, 15*time.Minute, "go", "build", "-o", b.Plain, "."); err != nil {
				errPlain = fmt.Errorf("plain build failed: %v\n%s", err, out)
			}
		}
	}()
	go func() {
		defer wg.Done()
		if !wantSim {
			return
		}
		if err := core.CopyTree(filepath.Join(verif, "simsrc", "zsim"), filepath.Join(simSrc, "zsim"), nil); err != nil {
			errSim = err
			return
		}
		out, err := core.Run(simSrc, env, 10*time.Minute, filepath.Join(verif, "bin", "rewriter"), "-dir", simSrc, "-fine")
		if err != nil {
			errSim = fmt.Errorf("rewriter failed: %v\n%s", err, out)
			return
		}
		if i := strings.Index(out, "{"); i >= 0 {
			json.Unmarshal([]byte(out[i:]), &b.Rewrite)
		}
		if err := core.CopyFile(filepath.Join(verif, "simsrc", "zsim_harness.go"), filepath.Join(simSrc, "zsim_harness.go"), 0644); err != nil {
			errSim = err
			return
		}
		b.Sim = filepath.Join(s.Dir, "simferret")
		if out, err := core.Run(simSrc, env, 15*time.Minute, "go", "build", "-o", b.Sim, "."); err != nil {
			errSim = fmt.Errorf("simulated build failed: %v\n%s", err, out)
		}
	}()
	wg.Wait()
	if errPlain != nil {
		return b, errPlain
	}
	if errSim != nil {
		return b, errSim
	}
	b.BuildSec = time.Since(t0).Seconds()
	return b, nil
}

func (b *Build) Close() { b.S.Remove() }

// NewRunDir returns a fresh directory for one run.
func (b *Build) NewRunDir() string {
	b.mu.Lock()
	b.runSeq++
	n := b.runSeq
	b.mu.Unlock()
	d := filepath.Join(b.RunsDir, fmt.Sprintf("r%07d", n))
	os.MkdirAll(d, 0755)
	return d
}
