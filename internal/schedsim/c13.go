package schedsim

import (
	"fmt"
	"os"
	"path/filepath"
	"regexp"
	"strconv"
	"strings"
	"time"

	"verif/internal/core"
)

var goPanicRe = regexp.MustCompile(`(?m)^(panic: |goroutine \d+ \[|fatal error: )`)

var locRe = regexp.MustCompile(`(?m)^\s*-->\s+(.+?):(\d+):(\d+)\s*$`)

// faultKinds: which failure modes make sense for which wrapped call.
var faultModes = map[string][]string{
	"readfile":  {"enoent", "eio", "eacces", "short", "torn", "emfile"},
	"stat":      {"enoent", "eacces", "eio"},
	"mkdirall":  {"enospc", "eacces", "enotdir", "eio"},
	"writefile": {"enospc", "partial", "eio", "eacces"},
	"removeall": {"eacces", "eio"},
	"readdir":   {"eacces", "eio", "emfile"},
	"exec":      {"exit1", "signal", "notfound", "killed-partial"},
	"open":      {"enoent", "eacces", "emfile"},
	"create":    {"enospc", "eacces"},
}

// judgeC13Unit applies C13's clauses to one finished compile.
func judgeC13Unit(u *Unit, rr *RunResult, i int) []Issue {
	var issues []Issue
	c := &rr.Results[i]
	ud := rr.UnitDir(i)
	serr := Normalise(c.Stderr, ud)
	sout := Normalise(c.Stdout, ud)
	faulty := len(c.Sim.FaultsFired) > 0
	errPrinted := HasErrorDiagnostic(serr)
	// failure messages that are not diagnostics proper (entry file unusable)
	otherErr := strings.Contains(sout, "Invalid file path") || strings.Contains(sout, "Failed to resolve path") || strings.Contains(serr, "Usage: ferret")
	artifact := "out/app"
	if u.Backend == "wasm" {
		artifact = "out/app.wasm"
	}
	_, haveArtifact := c.File(artifact)

	if c.Exit == 0 && (errPrinted || otherErr) {
		issues = append(issues, Issue{"exit0-with-error", "exit status 0 although an error diagnostic was printed: " + firstErrorLine(serr)})
	}
	if c.Exit != 0 && !errPrinted && !(faulty && otherErr) && !otherErr {
		issues = append(issues, Issue{"failure-without-diagnostic", fmt.Sprintf("exit status %d but no error diagnostic was printed; stderr: %s", c.Exit, firstLines(serr, 3))})
	}
	if c.Exit != 0 && haveArtifact {
		issues = append(issues, Issue{"artifact-after-failure", fmt.Sprintf("compilation failed (exit %d) but %s exists", c.Exit, artifact)})
	}
	if c.Exit == 0 && !haveArtifact && !u.TypecheckOnly {
		cls := "success-without-artifact"
		if faulty {
			cls += ":" + faultSig(c.Sim.FaultsFired)
		}
		issues = append(issues, Issue{cls, "exit status 0 and no error printed, but no artifact was produced" + faultNote(c.Sim.FaultsFired)})
	}
	if strings.Contains(serr, "INTERNAL COMPILER ERROR") || goPanicRe.MatchString(serr) {
		issues = append(issues, Issue{"internal-error-text", "internal error text in the output: " + firstLines(serr, 3)})
	}
	if !faulty && c.Exit != 0 && errPrinted {
		// "prints at least one error diagnostic (whose location lies inside an input
		// file) whenever it fails": flagged when locations are printed but none of
		// them lies inside an input file (or a bundled library file). A failure
		// whose diagnostics carry no location at all (empty entry file, missing
		// main) is not flagged: no position inside an input file exists for it.
		files := map[string][]string{}
		for n, s := range u.Project.Files {
			files["<RUN>/proj/"+u.Project.Dir+"/"+n] = strings.Split(s, "\n")
		}
		inside, outside := 0, 0
		firstOutside := ""
		for _, m := range locRe.FindAllStringSubmatch(serr, -1) {
			path, ls, cs := m[1], m[2], m[3]
			line, _ := strconv.Atoi(ls)
			lines, ok := files[path]
			if !ok {
				if strings.Contains(path, "/libs/") && strings.HasSuffix(path, ".fer") {
					inside++
					continue
				}
				outside++
				if firstOutside == "" {
					firstOutside = path + ":" + ls + ":" + cs + " (not an input file)"
				}
				continue
			}
			// one past the end still designates the file (end-of-file diagnostics); the
			// compiler may count a lone carriage return as a line break. Columns are
			// not checked: their unit (bytes, runes, tab stops) is a display convention.
			maxLines := len(lines) + strings.Count(strings.Join(lines, "\n"), "\r") + 1
			if line < 1 || line > maxLines {
				outside++
				if firstOutside == "" {
					firstOutside = fmt.Sprintf("%s:%s:%s (the file has %d lines)", path, ls, cs, len(lines))
				}
				continue
			}
			inside++
		}
		if inside == 0 && outside > 0 {
			issues = append(issues, Issue{"no-diagnostic-inside-input", fmt.Sprintf("compilation failed and none of the %d printed locations lies inside an input file, e.g. %s", outside, firstOutside)})
		}
		if inside == 0 && outside == 0 && len(u.Project.Files) > 0 {
			issues = append(issues, Issue{"no-diagnostic-location", "compilation failed and no diagnostic carries a location (file:line:column) at all: " + firstLines(serr, 3)})
		}
	}
	return issues
}

func faultSig(fired []string) string {
	// "kind#n:mode:file@site" -> kind:mode@site
	var parts []string
	for _, f := range fired {
		kind := f
		if i := strings.Index(f, "#"); i >= 0 {
			kind = f[:i]
		}
		mode, site := "", ""
		fs := strings.SplitN(f, ":", 3)
		if len(fs) >= 2 {
			mode = fs[1]
		}
		if i := strings.LastIndex(f, "@"); i >= 0 {
			site = f[i+1:]
			if j := strings.LastIndex(site, ":"); j >= 0 {
				site = site[:j] // file only: line numbers move with unrelated edits
			}
		}
		parts = append(parts, kind+":"+mode+"@"+site)
	}
	return strings.Join(parts, "+")
}

func faultNote(fired []string) string {
	if len(fired) == 0 {
		return ""
	}
	return " (injected: " + strings.Join(fired, ", ") + ")"
}

func firstErrorLine(s string) string {
	for _, l := range strings.Split(s, "\n") {
		if errHeadRe.MatchString(l) {
			return l
		}
	}
	return firstLines(s, 2)
}

type C13Options struct {
	Tier string
	Seed uint64
}

func CheckC13(opt C13Options) int {
	t0 := time.Now()
	b, err := Prepare("c13", false)
	if err != nil {
		fmt.Fprintln(os.Stderr, "C13: build failed:", err)
		if b != nil {
			b.Close()
		}
		return 2
	}
	defer b.Close()
	fmt.Printf("C13: build ready in %.0fs\n", b.BuildSec)
	corpus := LoadCorpus()

	nProj, faultPer, fine := 1500, 2, 5
	if opt.Tier == "thorough" {
		nProj, faultPer, fine = 16000, 3, 15
	}
	// a statement budget, not a time-out: the compiler is super-linear on deeply nested input
	// (2 800 nested '[' take the unrewritten compiler 1.8 s and about 2*10^8 statements), which is slow but
	// bounded; the budget is 25 times that
	const maxY = 5_000_000_000

	type caseT struct {
		unit Unit
		desc string
	}
	cases := make([]caseT, nProj, nProj+4096)
	for i := 0; i < nProj; i++ {
		r := core.Sub(opt.Seed, "c13", "proj", i)
		p, d := GenC13Project(r, corpus)
		be := "native"
		if r.Chance(1, 4) {
			be = "wasm"
		}
		pl := RandomPlan(r, fine)
		if r.Chance(1, 4) {
			pl = Canonical()
		}
		pl.MaxY = maxY
		tools := "stub"
		if r.Chance(1, 10) {
			tools = "real"
		}
		cases[i] = caseT{Unit{Project: p, Backend: be, Plan: pl, KeepGen: r.Chance(1, 2), Tools: tools}, d}
	}

	// truncation sweep: the kitchen-sink program (and one imported copy of it) cut at
	// every step-th token boundary, alone and with tails that close nothing
	step, tails := 2, 2
	if opt.Tier == "thorough" {
		step, tails = 1, 6
	}
	sweep := TruncationSweep(core.Sub(opt.Seed, "c13", "sweep"), KitchenSink, step, tails)
	for si, p := range sweep {
		if si%5 == 4 {
			// the truncated text as an IMPORTED module: the loop runs in a parser goroutine
			p = Project{Dir: "q", Entry: "main.fer", Files: map[string]string{"main.fer": "import \"std/io\";\nimport \"q/lib\";\nfn main() {\n    io::Println(1);\n}\n", "lib.fer": p.Files["main.fer"]}}
		}
		pl := Canonical()
		pl.MaxY = maxY
		cases = append(cases, caseT{Unit{Project: p, Backend: "native", Plan: pl, KeepGen: false, Tools: "stub"}, "truncation-sweep"})
	}

	rep, err := NewReporter("C13", opt.Seed, b)
	if err != nil {
		fmt.Fprintln(os.Stderr, "C13:", err)
		return 2
	}
	if opt.Tier != "thorough" {
		rep.Shrink.Budget, rep.Shrink.Time = 150, 60*time.Second
	}
	judge := JudgeLast(func(u *Unit, rr *RunResult, i int) []Issue { return judgeC13Unit(u, rr, i) })

	runWave := func(units []Unit) []BatchOutcome {
		const batch = 16
		nb := (len(units) + batch - 1) / batch
		outs := make([]BatchOutcome, len(units))
		core.ParallelDo(nb, func(bi int) {
			lo, hi := bi*batch, (bi+1)*batch
			if hi > len(units) {
				hi = len(units)
			}
			sub := units[lo:hi]
			res := RunBatch(b, sub, func(i int, rr *RunResult, k int) []Issue { return judgeC13Unit(&sub[i], rr, k) }, nil)
			for k, o := range res {
				outs[lo+k] = o
				if o.Trouble != "" {
					rep.NoteTrouble(o.Trouble)
				}
				for _, is := range o.Issues {
					alone := One(sub[k])
					hist := &Spec{}
					for _, pi := range o.Prefix {
						hist.Units = append(hist.Units, sub[pi])
					}
					hist.Units = append(hist.Units, sub[k])
					rep.Note(is, alone, hist, judge, nil)
				}
			}
		})
		return outs
	}

	// wave 1: fault-free (literal C13)
	units1 := make([]Unit, len(cases))
	for i := range cases {
		units1[i] = cases[i].unit
	}
	outs1 := runWave(units1)

	// wave 2: the same projects with faults placed at calls that the fault-free run made
	var units2 []Unit
	var from []int
	for i, o := range outs1 {
		if !o.Ran || len(o.Sim.FaultSites) == 0 {
			continue
		}
		r := core.Sub(opt.Seed, "c13", "faults", i)
		// every project that compiled gets faults (only those reach code generation
		// and the tool chain); a quarter of the others
		succeeded := len(o.Issues) == 0 && o.Sim.FaultSites["exec"]+o.Sim.FaultSites["writefile"] > 0
		if !succeeded && !r.Chance(1, 4) {
			continue
		}
		kinds := core.SortedKeys(o.Sim.FaultSites)
		var late []string
		for _, k := range []string{"exec", "writefile", "removeall", "mkdirall"} {
			if o.Sim.FaultSites[k] > 0 {
				late = append(late, k)
			}
		}
		per := faultPer
		if succeeded {
			per = 3 * faultPer
		}
		for f := 0; f < per; f++ {
			u := cloneUnit(&cases[i].unit)
			nf := 1
			if r.Chance(1, 4) {
				nf = 2
			}
			for ; nf > 0; nf-- {
				k := core.Pick(r, kinds)
				if len(late) > 0 && r.Chance(2, 3) {
					k = core.Pick(r, late)
				}
				n := o.Sim.FaultSites[k]
				ord := r.Intn(n)
				// bias towards the last calls of a kind (the linker is the last exec, the
				// output directory the last mkdir)
				if r.Chance(1, 2) {
					ord = n - 1 - r.Intn(2)
					if ord < 0 {
						ord = 0
					}
				}
				modes := faultModes[k]
				if len(modes) == 0 {
					continue
				}
				u.Plan.Faults = append(u.Plan.Faults, Fault{Kind: k, Ordinal: ord, Mode: core.Pick(r, modes)})
			}
			units2 = append(units2, u)
			from = append(from, i)
		}
	}
	outs2 := runWave(units2)
	exit := rep.Finish()

	// evidence
	sigs := map[string]bool{}
	outcomes := map[string]int{}
	faultFired := map[string]int{}
	faultConfigured, faultRuns := 0, 0
	var steps, ycalls uint64
	damage := map[string]int{}
	for i, o := range outs1 {
		if o.Sim.ConflictSig != "" {
			sigs[fmt.Sprint(i, o.Sim.ConflictSig)] = true
		}
		steps += o.Sim.Steps
		ycalls += o.Sim.YCalls
		for _, d := range strings.Split(cases[i].desc, ",") {
			if j := strings.Index(d, ":"); j >= 0 {
				d = d[j+1:]
			}
			if j := strings.IndexAny(d, "(@"); j >= 0 {
				d = d[:j]
			}
			damage[d]++
		}
	}
	for _, u := range units2 {
		faultConfigured += len(u.Plan.Faults)
	}
	for _, o := range outs2 {
		steps += o.Sim.Steps
		ycalls += o.Sim.YCalls
		if len(o.Sim.FaultsFired) > 0 {
			faultRuns++
		}
		for _, f := range o.Sim.FaultsFired {
			fs := strings.SplitN(f, ":", 3)
			kind := fs[0]
			if j := strings.Index(kind, "#"); j >= 0 {
				kind = kind[:j]
			}
			if len(fs) > 1 {
				kind += ":" + fs[1]
			}
			faultFired[kind]++
		}
	}
	_ = from
	wall := time.Since(t0).Seconds()
	var samples []any
	for _, i := range []int{0, len(cases) / 2, len(cases) - 1} {
		samples = append(samples, map[string]any{"damage": cases[i].desc, "backend": cases[i].unit.Backend, "files": cases[i].unit.Project.Files, "plan": cases[i].unit.Plan})
	}
	if len(units2) > 0 {
		samples = append(samples, map[string]any{"fault_plan": units2[0].Plan.Faults, "fired": outs2[0].Sim.FaultsFired})
	}
	distinct := map[string]bool{}
	for i := range cases {
		distinct[cases[i].desc+"|"+cases[i].unit.Project.Files[cases[i].unit.Project.Entry]] = true
	}
	ev := &core.Evidence{
		PropertyID: "C13", Tier: opt.Tier, Seed: int64(opt.Seed), Level: "exploration",
		Coverage: map[string]any{
			"evaluations":         len(units1) + len(units2),
			"distinct_nontrivial": len(distinct),
			"rule": "one evaluation = one simulated compiler invocation on a generated, then damaged, project of 1-6 files under a seeded goroutine schedule and map order; " +
				"the second wave repeats projects with 1-2 file-system / tool-chain faults placed at calls the fault-free run was seen to make. " +
				"distinct_nontrivial = distinct (damage description, entry file text) pairs of the fault-free wave",
			"samples":                         samples,
			"fault_free_runs":                 len(units1),
			"fault_runs":                      len(units2),
			"fault_runs_where_a_fault_fired":  faultRuns,
			"faults_configured":               faultConfigured,
			"faults_fired_by_kind_and_mode":   faultFired,
			"damage_operators_applied":        damage,
			"distinct_conflict_signatures":    len(sigs),
			"scheduling_steps_simulated_time": steps,
			"statements_executed":             ycalls,
			"statement_budget_per_compile":    maxY,
			"outcomes":                        outcomes,
			"runs_per_hour":                   int(float64(len(units1)+len(units2)) / wall * 3600),
			"build_seconds":                   b.BuildSec,
			"violation_classes":               rep.Classes(),
			"known_findings_hit":              rep.KnownHits,
			"real_components":                 "the whole compiler including main(), flag handling and exit status; embedded QBE; real file system except at injected faults; real as/ld in a tenth of the runs",
			"stubbed_components":              "Go scheduler, sync, sync/atomic, map iteration order (simulated, seeded); as/ld stand-in in the other runs; faulted calls return the injected error instead of reaching the OS",
		},
		Assumptions: []string{
			"termination is decided by a deterministic budget of 5*10^9 executed statements per compile (a normal compile of these inputs executes under 10^6, the slowest terminating input seen about 2*10^8) plus a wall-clock cap of 4 minutes per compile",
			"a diagnostic location one line or one column past the end of an input file still counts as inside it (end-of-file diagnostics)",
			"under injected faults only the narrow relaxation of DESIGN.md §6 C13 applies: no crash, no hang, failure reported when the artifact is missing, nothing left at the output path after a failure",
		},
		WallS: wall, Violations: rep.Violations,
	}
	if err := core.WriteEvidence(ev); err != nil {
		fmt.Fprintln(os.Stderr, "C13: evidence:", err)
		return 2
	}
	fmt.Printf("C13 %s: %d fault-free + %d fault runs (%d with a fault fired), %d classes of issue, %.0fs\n", opt.Tier, len(units1), len(units2), faultRuns, len(rep.Classes()), wall)
	return exit
}

var _ = filepath.Join
