package schedsim

import (
	"bytes"
	"fmt"
	"os"
	"regexp"
	"sort"
	"strings"
	"time"

	"verif/internal/core"
)

// Observable is what C14 compares: exit status, diagnostics, generated code.
type Observable struct {
	Exit   int
	Stdout string
	Stderr string
	Files  map[string]string // name -> sha
}

func observe(rr *RunResult, i int) Observable {
	c := &rr.Results[i]
	ud := rr.UnitDir(i)
	o := Observable{Exit: c.Exit, Stdout: Normalise(c.Stdout, ud), Stderr: Normalise(c.Stderr, ud), Files: map[string]string{}}
	for _, f := range c.Files {
		// the property names the generated code: QBE IL per module and the .wasm
		// binary. Assembly and objects are outputs of QBE/as/ld; the embedded QBE
		// numbers its local labels with a process-wide counter, so a second
		// compile in one process legitimately renames .Lbb labels.
		if strings.HasSuffix(f.Name, ".ssa") || strings.HasSuffix(f.Name, ".wasm") {
			o.Files[f.Name] = f.Sha
		}
	}
	return o
}

var litRe = regexp.MustCompile(`__(func|struct|enum|interface)_lit__[0-9]+`)
var funclitRe = regexp.MustCompile(`(func|struct|enum|interface)lit[0-9]+`)

// compareObs returns the issues that make b differ from the reference a.
// get reads the bytes of a collected file of either side.
func compareObs(a, b Observable, getA, getB func(name string) []byte) []Issue {
	var issues []Issue
	if a.Exit != b.Exit {
		issues = append(issues, Issue{"diff:exit-status", fmt.Sprintf("exit status %d, reference run %d", b.Exit, a.Exit)})
	}
	if a.Stderr != b.Stderr || a.Stdout != b.Stdout {
		cls := "diff:diagnostics"
		sa, sb := a.Stderr+a.Stdout, b.Stderr+b.Stdout
		switch {
		case litRe.ReplaceAllString(sa, "L") == litRe.ReplaceAllString(sb, "L") || funclitRe.ReplaceAllString(sa, "L") == funclitRe.ReplaceAllString(sb, "L"):
			cls += ":literal-ids-only"
		case sortedLines(sa) == sortedLines(sb):
			cls += ":order-only"
		case strings.Contains(sa, "circular import") && strings.Contains(sb, "circular import"):
			cls += ":circular-import-report"
		}
		issues = append(issues, Issue{cls, "diagnostics differ from the reference run: " + firstDiff(sa, sb)})
	}
	names := map[string]bool{}
	for n := range a.Files {
		names[n] = true
	}
	for n := range b.Files {
		names[n] = true
	}
	var ns []string
	for n := range names {
		ns = append(ns, n)
	}
	sort.Strings(ns)
	seen := map[string]bool{}
	for _, n := range ns {
		sa, okA := a.Files[n]
		sb, okB := b.Files[n]
		if okA != okB {
			if !seen["diff:file-set"] {
				issues = append(issues, Issue{"diff:file-set", fmt.Sprintf("file %s present in only one of the runs", n)})
				seen["diff:file-set"] = true
			}
			continue
		}
		if sa == sb {
			continue
		}
		kind := "generated"
		switch {
		case strings.HasSuffix(n, ".ssa"):
			kind = "il"
		case strings.HasSuffix(n, ".wasm"):
			kind = "wasm"
		case strings.HasSuffix(n, ".s"):
			kind = "asm"
		case strings.HasSuffix(n, ".o") || n == "out/app":
			kind = "object"
		}
		cls := "diff:" + kind
		detail := fmt.Sprintf("%s differs from the reference run", n)
		if kind == "il" || kind == "asm" {
			da, db := string(getA(n)), string(getB(n))
			na, nb := litRe.ReplaceAllString(da, "__${1}_lit__N"), litRe.ReplaceAllString(db, "__${1}_lit__N")
			switch {
			case na == nb:
				cls += ":literal-ids-only"
			case sortedLines(da) == sortedLines(db):
				cls += ":line-order-only"
			case sortedLines(na) == sortedLines(nb):
				cls += ":literal-ids-and-line-order"
			}
			detail += ": " + firstDiff(da, db)
		}
		if kind == "wasm" {
			da, db := getA(n), getB(n)
			if len(da) == len(db) {
				cls += ":same-size"
			}
			detail += fmt.Sprintf(" (%d vs %d bytes, first difference at offset %d)", len(da), len(db), firstDiffBytes(da, db))
		}
		if !seen[cls] {
			issues = append(issues, Issue{cls, detail})
			seen[cls] = true
		}
	}
	// asm/object differences are consequences of IL differences: report the root only
	hasIL := false
	for _, is := range issues {
		if strings.HasPrefix(is.Class, "diff:il") {
			hasIL = true
		}
	}
	if hasIL {
		out := issues[:0]
		for _, is := range issues {
			if strings.HasPrefix(is.Class, "diff:asm") || strings.HasPrefix(is.Class, "diff:object") {
				continue
			}
			out = append(out, is)
		}
		issues = out
	}
	return issues
}

func sortedLines(s string) string {
	ls := strings.Split(s, "\n")
	sort.Strings(ls)
	return strings.Join(ls, "\n")
}

func firstDiff(a, b string) string {
	la, lb := strings.Split(a, "\n"), strings.Split(b, "\n")
	for i := 0; i < len(la) || i < len(lb); i++ {
		var x, y string
		if i < len(la) {
			x = la[i]
		}
		if i < len(lb) {
			y = lb[i]
		}
		if x != y {
			return fmt.Sprintf("line %d: reference %q, this run %q", i+1, trunc(x, 120), trunc(y, 120))
		}
	}
	return "(no line difference)"
}

func trunc(s string, n int) string {
	if len(s) > n {
		return s[:n] + "…"
	}
	return s
}

func firstDiffBytes(a, b []byte) int {
	n := len(a)
	if len(b) < n {
		n = len(b)
	}
	for i := 0; i < n; i++ {
		if a[i] != b[i] {
			return i
		}
	}
	return n
}

// JudgeC14: the last unit's observable must equal that of the same project
// compiled in a fresh process under the canonical plan.
func JudgeC14(b *Build, spec *Spec) ([]Issue, error) {
	last := len(spec.Units) - 1
	refU := cloneUnit(&spec.Units[last])
	refU.Plan = Canonical()
	ref := b.Exec(One(refU))
	defer ref.Cleanup()
	if len(ref.Results) != 1 || !ref.Results[0].Done {
		// the canonical run itself crashes: not a determinism question (C13's business)
		return nil, nil
	}
	rr := b.Exec(spec)
	defer rr.Cleanup()
	if len(rr.Results) <= last {
		if len(rr.Results) > 0 && !rr.Results[len(rr.Results)-1].Done && len(rr.Results)-1 < last {
			return nil, nil
		}
		if len(rr.Results) == last+0 && (len(rr.Results) == 0 || rr.Results[len(rr.Results)-1].Done) {
			is, err := procTrouble(rr)
			if err != nil {
				return nil, err
			}
			return []Issue{{Class: "diff:" + is.Class, Detail: "the reference run completes but this run does not: " + is.Detail}}, nil
		}
		return nil, nil
	}
	c := &rr.Results[last]
	var issues []Issue
	for _, is := range simIssues(c) {
		issues = append(issues, Issue{"diff:" + is.Class, "the reference run completes but this run does not: " + is.Detail})
	}
	if !c.Done {
		return issues, nil
	}
	a, o := observe(ref, 0), observe(rr, last)
	issues = append(issues, compareObs(a, o,
		func(n string) []byte { d, _ := ref.SnapFile(0, n); return d },
		func(n string) []byte { d, _ := rr.SnapFile(last, n); return d })...)
	return issues, nil
}

type C14Options struct {
	Tier string
	Seed uint64
}

func CheckC14(opt C14Options) int {
	t0 := time.Now()
	b, err := Prepare("c14", false)
	if err != nil {
		fmt.Fprintln(os.Stderr, "C14: build failed:", err)
		if b != nil {
			b.Close()
		}
		return 2
	}
	defer b.Close()
	fmt.Printf("C14: build ready in %.0fs\n", b.BuildSec)

	nProj, k, fine := 70, 9, 10
	if opt.Tier == "thorough" {
		nProj, k, fine = 900, 24, 25
	}
	type caseT struct {
		proj        Project
		flavour     string
		backend     string
		units       []Unit
		foreign     int // index of a unit that compiles ANOTHER project under the canonical plan
		foreignCase int // the case whose unit 0 is the canonical run of that project
	}
	var cases []caseT
	projs := make([]Project, nProj)
	flavours := make([]string, nProj)
	for pi := 0; pi < nProj; pi++ {
		r := core.Sub(opt.Seed, "c14", "proj", pi)
		fl := "ok"
		switch x := r.Intn(20); {
		case x < 7:
			fl = "ok"
		case x < 11:
			fl = "plain" // compiles on the wasm back end too
		case x < 17:
			fl = "errors"
		default:
			fl = "cycle"
		}
		projs[pi], flavours[pi] = GenProject(r, fl), fl
	}
	for pi := 0; pi < nProj; pi++ {
		proj, fl := projs[pi], flavours[pi]
		for _, be := range []string{"native", "wasm"} {
			c := caseT{proj: proj, flavour: fl, backend: be}
			mk := func(pl Plan) Unit {
				return Unit{Project: proj, Backend: be, Plan: pl, KeepGen: true, Tools: "stub"}
			}
			c.units = append(c.units, mk(Canonical()))
			// history: the very same compile again in the same process
			c.units = append(c.units, mk(Canonical()))
			c.units = append(c.units, mk(Plan{Strategy: "lifo", MapMode: "reverse"}))
			// history: ANOTHER project compiled in between (what a playground or a test
			// binary does) - the next project of the batch, which has the same directory
			// and module names but different contents. Its output is compared with ITS
			// canonical run (unit 0 of its own case) once all cases have run.
			c.foreign = len(c.units)
			c.foreignCase = 2*((pi+1)%nProj) + len(cases)%2
			c.units = append(c.units, Unit{Project: projs[(pi+1)%nProj], Backend: be, Plan: Canonical(), KeepGen: true, Tools: "stub"})
			// map order alone, schedule alone, then both
			rs := core.Sub(opt.Seed, "c14", "plans", pi, be)
			mo := Canonical()
			mo.MapMode, mo.MapSeed = "random", rs.Uint64()>>1
			c.units = append(c.units, mk(mo))
			c.units = append(c.units, mk(RandomPlan(rs, 0).SchedOnly()))
			for len(c.units) < k {
				pl := RandomPlan(rs, fine)
				manyParserDiags := false
				for _, src := range proj.Files {
					if strings.Contains(src, "let everywhere") {
						manyParserDiags = true
					}
				}
				if fl == "errors" && (manyParserDiags || rs.Chance(2, 5)) {
					// diagnostics are appended by concurrently running parsers: give the
					// statement-level interleavings (lost or reordered appends) a real chance
					pl.Fine = true
					pl.FineProb = core.Pick(rs, []int{1, 1, 2, 4})
					pl.Strategy = core.Pick(rs, []string{"random", "random", "sticky50"})
				}
				c.units = append(c.units, mk(pl))
			}
			cases = append(cases, c)
		}
	}

	rep, err := NewReporter("C14", opt.Seed, b)
	if err != nil {
		fmt.Fprintln(os.Stderr, "C14:", err)
		return 2
	}
	if opt.Tier != "thorough" {
		rep.Shrink.Budget, rep.Shrink.Time = 120, 75*time.Second
	}
	type stat struct {
		sigs, traces                                    map[string]bool
		steps                                           uint64
		decisions, units, mapPerm, mapCalls, ties, fine int
		refCrashed                                      int
		sites                                           map[string]int
	}
	stats := make([]stat, len(cases))
	type obsT struct {
		obs    *Observable
		files  map[string][]byte
		prefix []int
	}
	refAll := make([]obsT, len(cases))
	foreignAll := make([]obsT, len(cases))
	grab := func(rr *RunResult, k int) obsT {
		o := observe(rr, k)
		fs := map[string][]byte{}
		for n := range o.Files {
			d, _ := rr.SnapFile(k, n)
			fs[n] = d
		}
		return obsT{obs: &o, files: fs}
	}
	core.ParallelDo(len(cases), func(ci int) {
		c := &cases[ci]
		st := &stats[ci]
		st.sigs, st.traces, st.sites = map[string]bool{}, map[string]bool{}, map[string]int{}
		var refObs *Observable
		var refFiles map[string][]byte
		outs := RunBatch(b, c.units, func(i int, rr *RunResult, k int) []Issue {
			if i == 0 || i == c.foreign {
				return nil
			}
			if refObs == nil {
				return nil
			}
			o := observe(rr, k)
			return compareObs(*refObs, o,
				func(n string) []byte { return refFiles[n] },
				func(n string) []byte { d, _ := rr.SnapFile(k, n); return d })
		}, func(i int, rr *RunResult, k int) {
			if i == c.foreign && rr.Results[k].Done {
				foreignAll[ci] = grab(rr, k)
			}
			if i == 0 && rr.Results[k].Done {
				refAll[ci] = grab(rr, k)
				o := observe(rr, k)
				refObs = &o
				refFiles = map[string][]byte{}
				for n := range o.Files {
					if strings.HasSuffix(n, ".ssa") || strings.HasSuffix(n, ".wasm") || strings.HasSuffix(n, ".s") {
						d, _ := rr.SnapFile(k, n)
						refFiles[n] = d
					}
				}
			}
		})
		// keep() runs after judge() for the same unit, and unit 0 is never judged,
		// so the reference is in place when unit 1 is judged
		if refObs == nil {
			st.refCrashed++
			return
		}
		for i, o := range outs {
			if o.Trouble != "" {
				rep.NoteTrouble(o.Trouble)
			}
			st.units++
			st.steps += o.Sim.Steps
			st.decisions += o.Sim.Decisions
			st.mapCalls += o.Sim.MapCalls
			st.mapPerm += o.Sim.MapPermuted
			st.ties += o.Sim.MapTies
			for s, n := range o.Sim.MapSitesSeen {
				st.sites[s] += n
			}
			if c.units[i].Plan.Fine {
				st.fine++
			}
			if o.Sim.ConflictSig != "" {
				st.sigs[o.Sim.ConflictSig] = true
				st.traces[o.Sim.TraceHash] = true
			}
			if i == c.foreign {
				foreignAll[ci].prefix = o.Prefix
			}
			if i == 0 || i == c.foreign {
				continue
			}
			for _, is := range o.Issues {
				if !strings.HasPrefix(is.Class, "diff:") {
					is = Issue{"diff:" + is.Class, "the reference run completes but this run does not: " + is.Detail}
				}
				alone := One(c.units[i])
				hist := &Spec{}
				for _, pi := range o.Prefix {
					hist.Units = append(hist.Units, c.units[pi])
				}
				hist.Units = append(hist.Units, c.units[i])
				rep.Note(is, alone, hist, JudgeC14, nil)
			}
		}
	})
	// history check: a project compiled after other projects in the same process
	// must give what it gives in a fresh process
	for ci := range cases {
		c := &cases[ci]
		f, r := foreignAll[ci], refAll[c.foreignCase]
		if f.obs == nil || r.obs == nil {
			continue
		}
		issues := compareObs(*r.obs, *f.obs, func(n string) []byte { return r.files[n] }, func(n string) []byte { return f.files[n] })
		for _, is := range issues {
			is.Class += ":after-other-project"
			hist := &Spec{}
			for _, pi := range f.prefix {
				hist.Units = append(hist.Units, c.units[pi])
			}
			hist.Units = append(hist.Units, c.units[c.foreign])
			rep.Note(is, One(c.units[c.foreign]), hist, judgeSuffix(JudgeC14, ":after-other-project"), nil)
		}
	}
	exit := rep.Finish()

	tot := stat{sigs: map[string]bool{}, traces: map[string]bool{}, sites: map[string]int{}}
	for ci, st := range stats {
		for s := range st.sigs {
			tot.sigs[fmt.Sprint(ci, s)] = true
		}
		for s := range st.traces {
			tot.traces[fmt.Sprint(ci, s)] = true
		}
		for s, n := range st.sites {
			tot.sites[s] += n
		}
		tot.steps += st.steps
		tot.decisions += st.decisions
		tot.units += st.units
		tot.mapCalls += st.mapCalls
		tot.mapPerm += st.mapPerm
		tot.ties += st.ties
		tot.fine += st.fine
		tot.refCrashed += st.refCrashed
	}
	wall := time.Since(t0).Seconds()
	fl := map[string]int{}
	for _, c := range cases {
		fl[c.flavour+"/"+c.backend]++
	}
	samples := []any{
		map[string]any{"flavour": cases[0].flavour, "backend": cases[0].backend, "files": cases[0].proj.Files, "plans": plansOf(cases[0].units)},
		map[string]any{"flavour": cases[len(cases)-1].flavour, "backend": cases[len(cases)-1].backend, "files": cases[len(cases)-1].proj.Files},
	}
	ev := &core.Evidence{
		PropertyID: "C14", Tier: opt.Tier, Seed: int64(opt.Seed), Level: "exploration",
		Coverage: map[string]any{
			"evaluations":         tot.units,
			"distinct_nontrivial": len(tot.sigs),
			"rule": "one evaluation = one simulated compile of a generated multi-module project (both back ends) under a seeded schedule and map-iteration order, in a process that already compiled the same project (history); " +
				"its exit status, diagnostics text and every generated file (QBE IL, assembly, .wasm) must equal the canonical run (fresh process, FIFO schedule, identity map order). " +
				"distinct_nontrivial = distinct (project, back end, conflict signature) triples, a conflict signature being the hash of the per-call-site goroutine order of mutating synchronisation operations",
			"samples":                         samples,
			"projects":                        nProj,
			"cases_by_flavour_and_backend":    fl,
			"distinct_traces":                 len(tot.traces),
			"scheduling_steps_simulated_time": tot.steps,
			"scheduling_decisions":            tot.decisions,
			"map_iterations_seen":             tot.mapCalls,
			"map_iterations_permuted":         tot.mapPerm,
			"map_sites_seen":                  tot.sites,
			"map_canonicaliser_ties":          tot.ties,
			"fine_grained_runs":               tot.fine,
			"reference_run_crashed":           tot.refCrashed,
			"runs_per_hour":                   int(float64(tot.units) / wall * 3600),
			"build_seconds":                   b.BuildSec,
			"violation_classes":               rep.Classes(),
			"known_findings_hit":              rep.KnownHits,
			"fault_kinds":                     "none (C14 quantifies over schedules, map orders and compile histories; faults are C13's configuration)",
			"real_components":                 "lexer, parser, context, pipeline, semantic phases, HIR/MIR, QBE and WASM code generators, embedded QBE, diagnostics emitter",
			"stubbed_components":              "Go scheduler, sync, sync/atomic, map iteration order (all simulated and seeded); as/ld replaced by a stand-in that creates its output file (their input, the assembly, is compared)",
		},
		Assumptions: []string{
			"the reference is the compiler itself under the canonical plan; equality is the only relation used, nothing of the implementation is mirrored",
			"any permutation of a map's keys is a legal iteration order (Go leaves it unspecified)",
			"outside fine-grained runs, code between two synchronisation operations is treated as atomic",
		},
		WallS: wall, Violations: rep.Violations,
	}
	if err := core.WriteEvidence(ev); err != nil {
		fmt.Fprintln(os.Stderr, "C14: evidence:", err)
		return 2
	}
	fmt.Printf("C14 %s: %d compiles of %d projects x 2 back ends, %d distinct conflict signatures, %d classes of difference, %.0fs\n",
		opt.Tier, tot.units, nProj, len(tot.sigs), len(rep.Classes()), wall)
	return exit
}

func plansOf(us []Unit) []Plan {
	var ps []Plan
	for _, u := range us {
		ps = append(ps, u.Plan)
	}
	return ps
}

var _ = bytes.Equal

// judgeSuffix appends a suffix to every class a judge reports (so that a class
// found by a derived comparison is recognised again on confirmation and shrinking).
func judgeSuffix(j Judge, suffix string) Judge {
	return func(b *Build, spec *Spec) ([]Issue, error) {
		is, err := j(b, spec)
		for i := range is {
			is[i].Class += suffix
		}
		return is, err
	}
}
