package schedsim

import (
	"fmt"
	"os"
	"path/filepath"
	"sort"
	"strings"
	"unicode"

	"verif/internal/core"
)

// Corpus is the set of well-formed starting points for C13's damage operators.
type Corpus struct {
	Singles []string // single-file programs from the repository (smoke tests, examples)
}

// LoadCorpus reads the repository's own sample programs from the working tree.
func LoadCorpus() *Corpus {
	c := &Corpus{}
	for _, pat := range []string{"smoke_test/*.fer", "smoke_test/extra/*.fer", "smoke_test/advanced/*.fer", "examples/*.fer", "*.fer"} {
		ms, _ := filepath.Glob(filepath.Join(core.RepoDir, pat))
		sort.Strings(ms)
		for _, m := range ms {
			data, err := os.ReadFile(m)
			if err != nil || len(data) > 6000 || len(data) == 0 {
				continue
			}
			c.Singles = append(c.Singles, string(data))
		}
	}
	return c
}

// GenC13Project draws a project and damages it. It returns the project and a
// short description of what was done to it.
func GenC13Project(r *core.Rng, c *Corpus) (Project, string) {
	var p Project
	var desc []string
	switch x := r.Intn(10); {
	case x < 4 && len(c.Singles) > 0:
		p = Project{Dir: "q", Files: map[string]string{"main.fer": core.Pick(r, c.Singles)}, Entry: "main.fer"}
		desc = append(desc, "repo-sample")
	case x < 6:
		g := RandomGraph(r, 2+r.Intn(3))
		p = g.Project()
		p.Dir = "q"
		for n, s := range p.Files {
			p.Files[n] = strings.ReplaceAll(s, "\"p/", "\"q/")
		}
		desc = append(desc, "import-graph")
	default:
		p = GenProject(r, core.Pick(r, []string{"ok", "ok", "errors", "cycle"}))
		desc = append(desc, "generated")
	}
	// one well-formed slip in an otherwise untouched project: a second default arm,
	// a repeated variant / field / declaration (the only error comes from a late phase)
	if r.Chance(1, 6) {
		names := core.SortedKeys(p.Files)
		var cand [][2]int // file index, line
		for fi, n := range names {
			for li, l := range strings.Split(p.Files[n], "\n") {
				t := strings.TrimSpace(l)
				if strings.HasPrefix(t, "_ =>") || (strings.Contains(t, "=>") && strings.HasSuffix(t, "}")) {
					cand = append(cand, [2]int{fi, li})
				}
			}
		}
		if len(cand) > 0 {
			c := core.Pick(r, cand)
			lines := strings.Split(p.Files[names[c[0]]], "\n")
			out := append([]string{}, lines[:c[1]+1]...)
			out = append(out, lines[c[1]])
			out = append(out, lines[c[1]+1:]...)
			p.Files[names[c[0]]] = strings.Join(out, "\n")
			return p, strings.Join(append(desc, fmt.Sprintf("%s:repeat-arm(%d)", names[c[0]], c[1]+1)), ",")
		}
	}
	nd := 0
	switch x := r.Intn(10); {
	case x < 1:
		nd = 0
	case x < 6:
		nd = 1
	case x < 9:
		nd = 2
	default:
		nd = 3 + r.Intn(3)
	}
	names := core.SortedKeys(p.Files)
	for ; nd > 0; nd-- {
		n := core.Pick(r, names)
		if r.Chance(1, 2) {
			n = p.Entry
		}
		if r.Chance(1, 5) {
			d := damageImports(r, &p, n)
			desc = append(desc, n+":"+d)
			continue
		}
		out, d := Damage(r, p.Files[n])
		if len(out) > 8192 {
			out = out[:8192]
		}
		p.Files[n] = out
		desc = append(desc, n+":"+d)
	}
	return p, strings.Join(desc, ",")
}

// tokenise splits source text into rough tokens (identifiers, numbers,
// strings, single punctuation characters, whitespace runs).
func tokenise(s string) []string {
	var out []string
	rs := []rune(s)
	for i := 0; i < len(rs); {
		c := rs[i]
		j := i + 1
		switch {
		case unicode.IsLetter(c) || c == '_':
			for j < len(rs) && (unicode.IsLetter(rs[j]) || unicode.IsDigit(rs[j]) || rs[j] == '_') {
				j++
			}
		case unicode.IsDigit(c):
			for j < len(rs) && (unicode.IsDigit(rs[j]) || rs[j] == '.' || rs[j] == '_' || unicode.IsLetter(rs[j])) {
				j++
			}
		case c == '"':
			for j < len(rs) && rs[j] != '"' && rs[j] != '\n' {
				if rs[j] == '\\' {
					j++
				}
				j++
			}
			if j < len(rs) {
				j++
			}
			if j > len(rs) {
				j = len(rs)
			}
		case unicode.IsSpace(c):
			for j < len(rs) && unicode.IsSpace(rs[j]) {
				j++
			}
		case c == ':' && j < len(rs) && (rs[j] == ':' || rs[j] == '='), c == '-' && j < len(rs) && rs[j] == '>', c == '=' && j < len(rs) && (rs[j] == '>' || rs[j] == '='),
			c == '?' && j < len(rs) && rs[j] == '?', c == '/' && j < len(rs) && rs[j] == '/':
			j++
		}
		out = append(out, string(rs[i:j]))
		i = j
	}
	return out
}

var interesting = []string{
	"{", "}", "(", ")", "[", "]", ",", ";", ":", "::", ":=", "=", "=>", "->", ".", "..", "...", "?", "??", "!", "&", "&'", "'", "\"", "@", "#", "$", "|", "||", "&&", "<", ">", "<<", ">>",
	"fn", "let", "const", "type", "struct", "interface", "enum", "match", "if", "else", "while", "for", "in", "return", "import", "as", "catch", "none", "true", "false", "break", "continue",
	"i8", "i32", "i64", "u8", "u64", "f64", "str", "bool", "i128", "u256", "map", "0", "1", "-1", "0x", "1e999", "9223372036854775808", "340282366920938463463374607431768211456", "0.0.0", "'a'", "''", "\"\\", "/*", "*/", "//", "\n", "\t", "\r\n",
}

// Damage applies one seeded damage operator to src.
func Damage(r *core.Rng, src string) (string, string) {
	toks := tokenise(src)
	nonSpace := func() []int {
		var ix []int
		for i, t := range toks {
			if strings.TrimSpace(t) != "" {
				ix = append(ix, i)
			}
		}
		return ix
	}
	switch op := r.Intn(23); op {
	case 0: // truncate at a byte
		if len(src) == 0 {
			return src, "truncate(empty)"
		}
		n := r.Intn(len(src))
		return src[:n], fmt.Sprintf("truncate@%d", n)
	case 1: // delete one token
		ix := nonSpace()
		if len(ix) == 0 {
			return src, "noop"
		}
		i := core.Pick(r, ix)
		t := toks[i]
		toks[i] = ""
		return strings.Join(toks, ""), fmt.Sprintf("delete-token(%q)", trunc(t, 12))
	case 2: // delete a span of tokens
		ix := nonSpace()
		if len(ix) == 0 {
			return src, "noop"
		}
		a := r.Intn(len(ix))
		b := a + 1 + r.Intn(8)
		if b > len(ix) {
			b = len(ix)
		}
		for _, i := range ix[a:b] {
			toks[i] = ""
		}
		return strings.Join(toks, ""), fmt.Sprintf("delete-span(%d)", b-a)
	case 3: // duplicate a token or span
		ix := nonSpace()
		if len(ix) == 0 {
			return src, "noop"
		}
		a := r.Intn(len(ix))
		b := a + 1 + r.Intn(5)
		if b > len(ix) {
			b = len(ix)
		}
		seg := strings.Join(toks[ix[a]:ix[b-1]+1], "")
		toks[ix[b-1]] = toks[ix[b-1]] + " " + seg
		return strings.Join(toks, ""), fmt.Sprintf("duplicate-span(%d)", b-a)
	case 4: // swap two tokens
		ix := nonSpace()
		if len(ix) < 2 {
			return src, "noop"
		}
		a, b := core.Pick(r, ix), core.Pick(r, ix)
		toks[a], toks[b] = toks[b], toks[a]
		return strings.Join(toks, ""), "swap-tokens"
	case 5: // shuffle a window of tokens
		ix := nonSpace()
		if len(ix) < 3 {
			return src, "noop"
		}
		a := r.Intn(len(ix) - 2)
		w := 3 + r.Intn(10)
		if a+w > len(ix) {
			w = len(ix) - a
		}
		win := make([]string, w)
		for k := 0; k < w; k++ {
			win[k] = toks[ix[a+k]]
		}
		r.Shuffle(w, func(i, j int) { win[i], win[j] = win[j], win[i] })
		for k := 0; k < w; k++ {
			toks[ix[a+k]] = win[k]
		}
		return strings.Join(toks, ""), fmt.Sprintf("shuffle-window(%d)", w)
	case 6: // replace a token by an interesting one
		ix := nonSpace()
		if len(ix) == 0 {
			return src, "noop"
		}
		i := core.Pick(r, ix)
		t := core.Pick(r, interesting)
		toks[i] = t
		return strings.Join(toks, ""), fmt.Sprintf("replace-token(%q)", t)
	case 7: // insert an interesting token
		if len(toks) == 0 {
			return core.Pick(r, interesting), "insert-into-empty"
		}
		i := r.Intn(len(toks))
		t := core.Pick(r, interesting)
		toks[i] = toks[i] + " " + t + " "
		return strings.Join(toks, ""), fmt.Sprintf("insert-token(%q)", t)
	case 8: // random bytes at a position
		n := 1 + r.Intn(8)
		bs := make([]byte, n)
		for i := range bs {
			bs[i] = byte(r.Intn(256))
		}
		pos := 0
		if len(src) > 0 {
			pos = r.Intn(len(src) + 1)
		}
		return src[:pos] + string(bs) + src[pos:], fmt.Sprintf("random-bytes(%d)@%d", n, pos)
	case 9: // NUL or invalid UTF-8
		pos := 0
		if len(src) > 0 {
			pos = r.Intn(len(src) + 1)
		}
		ins := core.Pick(r, []string{"\x00", "\xff\xfe", "\xc3\x28", "\xe2\x82", "\xf0\x9f\x98", "\xef\xbb\xbf", "\u00a0", "\U0001F600",
			"\\", "\\\n", "\"open\\\n", "'\\\n", "\"a\\", "'\\", "\\\"", "\"\\n\\t\\\\\"", "`", "\r", "\x0c", "\u2028"})
		return src[:pos] + ins + src[pos:], fmt.Sprintf("bad-utf8(%q)@%d", ins, pos)
	case 10: // unbalance nesting: drop or add a bracket
		var ix []int
		for i, t := range toks {
			if strings.ContainsAny(t, "{}()[]") && len(t) == 1 {
				ix = append(ix, i)
			}
		}
		if len(ix) == 0 || r.Chance(1, 3) {
			pos := 0
			if len(toks) > 0 {
				pos = r.Intn(len(toks))
			}
			b := core.Pick(r, []string{"{", "}", "(", ")", "[", "]"})
			k := 1 + r.Intn(3)
			if len(toks) == 0 {
				return strings.Repeat(b, k), "add-brackets"
			}
			toks[pos] = toks[pos] + strings.Repeat(b, k)
			return strings.Join(toks, ""), fmt.Sprintf("add-bracket(%s x%d)", b, k)
		}
		i := core.Pick(r, ix)
		b := toks[i]
		toks[i] = ""
		return strings.Join(toks, ""), fmt.Sprintf("drop-bracket(%s)", b)
	case 11: // empty or whitespace-only file
		return core.Pick(r, []string{"", "\n", "   \n\t\n", "// only a comment", "/* unterminated"}), "empty-file"
	case 12: // only garbage
		n := 1 + r.Intn(200)
		bs := make([]byte, n)
		for i := range bs {
			bs[i] = byte(r.Intn(256))
		}
		return string(bs), fmt.Sprintf("all-random(%d)", n)
	case 13: // deep nesting
		d := 50 + r.Intn(3000)
		o, c := "(", ")"
		switch r.Intn(4) {
		case 1:
			o, c = "[", "]"
		case 2:
			o, c = "{", "}"
		case 3:
			o, c = "-", ""
		}
		return "import \"std/io\";\nfn main() {\n    let x := " + strings.Repeat(o, d) + "1" + strings.Repeat(c, d/(1+r.Intn(2))) + ";\n    io::Println(x);\n}\n", fmt.Sprintf("deep-nesting(%s x%d)", o, d)
	case 14: // drop every occurrence of one punctuation kind
		p := core.Pick(r, []string{",", ";", ":", "=", ".", "::"})
		k := 0
		for i, t := range toks {
			if t == p && r.Chance(1, 2) {
				toks[i] = ""
				k++
			}
		}
		return strings.Join(toks, ""), fmt.Sprintf("drop-punct(%q x%d)", p, k)
	case 15, 16: // the file ends inside a construct: cut at a token, then a few tokens that close nothing
		ix := nonSpace()
		if len(ix) < 2 {
			return src, "noop"
		}
		// prefer a cut shortly after the start of a construct
		var starts []int
		for k, i := range ix {
			switch toks[i] {
			case "match", "interface", "struct", "enum", "fn", "=>", "{", "(", "[", "if", "while", "for", "catch", "import", "type", "let":
				starts = append(starts, k)
			}
		}
		k := r.Intn(len(ix))
		if len(starts) > 0 && r.Chance(3, 4) {
			k = core.Pick(r, starts) + r.Intn(6)
			if k >= len(ix) {
				k = len(ix) - 1
			}
		}
		head := strings.Join(toks[:ix[k]+1], "")
		var tail []string
		opener := []string{"fn", "let", "=", "=>", "->", "::", ".", ":", "(", "[", "{", "x", "1", "\"s\"", "match", "if", "&'", "&", "!", "?", "as", "in", "catch", "return", "struct", "interface", "enum", "type", "..", "fn helper", "x = fn f", "x = { y"}
		for n := r.Intn(5); n > 0; n-- {
			tail = append(tail, core.Pick(r, opener))
		}
		return head + " " + strings.Join(tail, " "), fmt.Sprintf("cut-inside-construct(+%d tokens)", len(tail))
	case 17, 18: // wrong arity: duplicate, drop or leave dangling one argument of a call
		// find "name(" ... ")" on one line
		var calls [][2]int
		for i := 0; i+1 < len(toks); i++ {
			if toks[i+1] != "(" || strings.TrimSpace(toks[i]) == "" || !(toks[i][0] == '_' || unicode.IsLetter(rune(toks[i][0]))) {
				continue
			}
			depth := 0
			for j := i + 1; j < len(toks) && !strings.Contains(toks[j], "\n"); j++ {
				if toks[j] == "(" {
					depth++
				} else if toks[j] == ")" {
					depth--
					if depth == 0 {
						calls = append(calls, [2]int{i + 1, j})
						break
					}
				}
			}
		}
		if len(calls) == 0 {
			return src, "noop"
		}
		c := core.Pick(r, calls)
		inner := strings.Join(toks[c[0]+1:c[1]], "")
		var repl string
		kind := r.Intn(5)
		switch {
		case kind == 0 || strings.TrimSpace(inner) == "":
			repl = inner + core.Pick(r, []string{"1", "x, y", "\"s\"", "none", "1, 2, 3"})
			if strings.TrimSpace(inner) != "" {
				repl = inner + ", " + core.Pick(r, []string{"1", "x", "\"s\"", "1, 2, 3"})
			}
		case kind == 1: // duplicate the argument list
			repl = inner + ", " + inner
		case kind == 2: // dangling comma
			repl = inner + ", "
		case kind == 3: // drop everything after the first comma (too few)
			if k := strings.Index(inner, ","); k >= 0 {
				repl = inner[:k]
			} else {
				repl = ""
			}
		default: // no arguments at all
			repl = ""
		}
		out := strings.Join(toks[:c[0]+1], "") + repl + strings.Join(toks[c[1]:], "")
		return out, fmt.Sprintf("arity(%d)", kind)
	case 20, 21: // a well-formed line twice: a second default arm, enum variant, field, import, declaration
		lines := strings.Split(src, "\n")
		var pref []int
		for i, l := range lines {
			t := strings.TrimSpace(l)
			if strings.Contains(t, "=>") || strings.HasPrefix(t, "_") || strings.HasPrefix(t, ".") || strings.HasPrefix(t, "import") || strings.HasPrefix(t, "let ") {
				pref = append(pref, i)
			}
		}
		i := r.Intn(len(lines))
		if len(pref) > 0 && r.Chance(3, 4) {
			i = core.Pick(r, pref)
		}
		out := append([]string{}, lines[:i+1]...)
		out = append(out, lines[i])
		out = append(out, lines[i+1:]...)
		return strings.Join(out, "\n"), fmt.Sprintf("duplicate-line(%d)", i+1)
	case 22: // a type name nobody declared, in a type position (after ':' or '->')
		var pos []int
		for i := 0; i < len(toks); i++ {
			if toks[i] != ":" && toks[i] != "->" {
				continue
			}
			j := i + 1
			for j < len(toks) && strings.TrimSpace(toks[j]) == "" {
				j++
			}
			if j < len(toks) && toks[j] != "" && (toks[j][0] == '_' || unicode.IsLetter(rune(toks[j][0]))) {
				pos = append(pos, j)
			}
		}
		if len(pos) == 0 {
			return src, "noop"
		}
		j := core.Pick(r, pos)
		old := toks[j]
		toks[j] = core.Pick(r, []string{"Zq9Type", "Nope", "i33", "string"})
		return strings.Join(toks, ""), fmt.Sprintf("unknown-type(%s->%s)", trunc(old, 10), toks[j])
	default: // join two statements / split a line
		lines := strings.Split(src, "\n")
		if len(lines) < 2 {
			return src, "noop"
		}
		i := r.Intn(len(lines))
		if r.Chance(1, 2) {
			lines = append(lines[:i], lines[i+1:]...)
			return strings.Join(lines, "\n"), fmt.Sprintf("drop-line(%d)", i+1)
		}
		j := r.Intn(len(lines))
		lines[i], lines[j] = lines[j], lines[i]
		return strings.Join(lines, "\n"), fmt.Sprintf("swap-lines(%d,%d)", i+1, j+1)
	}
}

// damageImports damages the import structure of the project around file n.
func damageImports(r *core.Rng, p *Project, n string) string {
	src := p.Files[n]
	mod := strings.TrimSuffix(n, ".fer")
	add := func(line string) { p.Files[n] = line + "\n" + src }
	switch r.Intn(11) {
	case 0:
		add(`import "q/nosuchmodule";`)
		return "import-missing"
	case 1:
		add(`import "";`)
		return "import-empty-path"
	case 2:
		add(fmt.Sprintf(`import "q/%s";`, mod))
		return "import-self"
	case 3:
		p.Dirs = append(p.Dirs, "dirmod.fer")
		add(`import "q/dirmod";`)
		return "import-directory"
	case 4:
		add(`import "q/../q/` + mod + `";`)
		return "import-dotdot"
	case 5:
		add(`import "q//` + mod + `";`)
		return "import-double-slash"
	case 6:
		add(`import "q\\` + mod + `";`)
		return "import-backslash"
	case 7:
		add(`import "std/nosuch";`)
		return "import-missing-builtin"
	case 8:
		add(`import "github.com/x/y";`)
		return "import-remote"
	case 9:
		// delete a module file that is imported
		for _, k := range core.SortedKeys(p.Files) {
			if k != p.Entry {
				delete(p.Files, k)
				return "delete-module-file(" + k + ")"
			}
		}
		add(`import "q/gone";`)
		return "import-missing"
	default:
		// use a non-exported name of another module
		p.Files["hidden.fer"] = "fn secret() -> i32 {\n    return 1;\n}\n"
		p.Files[n] = "import \"q/hidden\";\n" + strings.Replace(src, "fn main() {", "fn main() {\n    let zz := hidden::secret();", 1)
		return "use-unexported"
	}
}

// KitchenSink is a program that touches every syntactic construct with a
// dedicated recovery path in the parser: it is the base of C13's truncation
// sweep (every token boundary, plus a few tokens that close nothing).
const KitchenSink = `import "std/io";

type Shape interface {
    area() -> i32,
    name() -> str,
};

type Point struct {
    .X: i32,
    .Y: i32
};

type Status enum {
    Pending,
    Active,
    Done
};

fn (p: Point) area() -> i32 {
    return p.X * p.Y;
}

fn (p: &'Point) grow(n: i32) {
    p.X += n;
}

fn divide(a: i32, b: i32) -> str ! i32 {
    if b == 0 {
        return "division by zero"!;
    }
    return a / b;
}

fn pick(s: Status, k: i32) -> i32 {
    match s {
        Status::Pending => { return 0; }
        Status::Active => { return k; }
        _ => { return -1; }
    }
}

fn main() {
    let p: Point = { .X = 2, .Y = 3 };
    let q := { .X = 1, .Y = 1 } as Point;
    let nums := [1, 2, 3];
    append(&'nums, 4);
    let scores := { "a" => 1, "b" => 2 } as map[str]i32;
    let add := fn(y: i32) -> i32 {
        return y + p.X;
    };
    let opt: i32? = none;
    let ok := divide(10, 2) catch -1;
    let fb := divide(1, 0) catch e {
        io::Println(e);
    } 7;
    let i: i32 = 0;
    while i < 3 {
        if i == 1 {
            i += 1;
            continue;
        } else if i == 2 {
            break;
        }
        i += 1;
    }
    for k, v in scores {
        io::Println(k);
        io::Println(v);
    }
    match ok {
        5 => { io::Println("five"); }
        _ => { io::Println(nums[-1] + add(q.area()) + pick(Status::Active, fb)); }
    }
    let an: struct { .A: i32, .B: str } = { .A = 1, .B = "x" };
    io::Println(an.A);
    io::Println(opt ?? 0);
}
`

// TruncationSweep returns projects for the truncation sweep: the base program
// cut after every step-th token, alone and followed by a tail that closes nothing.
func TruncationSweep(r *core.Rng, base string, step int, tails int) []Project {
	toks := tokenise(base)
	var cuts []int
	for i, t := range toks {
		if strings.TrimSpace(t) != "" {
			cuts = append(cuts, i)
		}
	}
	tailPool := []string{"fn helper", "x = fn f", "x = { y", "fn", "=>", "(", "[", "{", "::", ".", "=", ":", "->", "let", "match x {", "1 =>", "if", "&'", "catch", "\"open", "'", "/*", "as", "..", "@", "?", "type T interface { fn f() -> i32;", "fn area() -> f64;"}
	var out []Project
	off := r.Intn(step)
	for k := off; k < len(cuts); k += step {
		head := strings.Join(toks[:cuts[k]+1], "")
		out = append(out, Project{Dir: "q", Entry: "main.fer", Files: map[string]string{"main.fer": head}})
		for t := 0; t < tails; t++ {
			out = append(out, Project{Dir: "q", Entry: "main.fer", Files: map[string]string{"main.fer": head + " " + core.Pick(r, tailPool)}})
		}
	}
	return out
}
