package schedsim

import (
	"crypto/sha256"
	"encoding/hex"
	"encoding/json"
	"fmt"
	"os"
	"path/filepath"
	"regexp"
	"sort"
	"strings"
	"time"

	"verif/internal/core"
)

// Fault mirrors simrt.Fault.
type Fault struct {
	Kind    string `json:"kind"`
	Ordinal int    `json:"ordinal"`
	Mode    string `json:"mode"`
}

// Plan mirrors simrt.Plan.
type Plan struct {
	Strategy string   `json:"strategy"`
	Seed     uint64   `json:"seed"`
	Tape     []int    `json:"tape,omitempty"`
	MapMode  string   `json:"map_mode"`
	MapSeed  uint64   `json:"map_seed"`
	MapSites []string `json:"map_sites,omitempty"`
	Faults   []Fault  `json:"faults,omitempty"`
	MaxSteps uint64   `json:"max_steps,omitempty"`
	PCTLen   int      `json:"pct_len,omitempty"`
	Fine     bool     `json:"fine,omitempty"`
	FineProb int      `json:"fine_prob,omitempty"`
	MaxY     uint64   `json:"max_y,omitempty"`
}

// Canonical is the reference plan: FIFO run-to-block, identity map order, no faults.
func Canonical() Plan { return Plan{Strategy: "fifo", MapMode: "identity"} }

// SimStats mirrors simrt.Stats.
type SimStats struct {
	Steps        uint64         `json:"steps"`
	Decisions    int            `json:"decisions"`
	Tape         []int          `json:"tape"`
	Spawned      int            `json:"spawned"`
	MaxLive      int            `json:"max_live"`
	TraceHash    string         `json:"trace_hash"`
	ConflictSig  string         `json:"conflict_sig"`
	MapCalls     int            `json:"map_calls"`
	MapPermuted  int            `json:"map_permuted"`
	MapTies      int            `json:"map_ties"`
	MapSitesSeen map[string]int `json:"map_sites_seen"`
	FaultsFired  []string       `json:"faults_fired"`
	FaultSites   map[string]int `json:"fault_sites"`
	Probes       map[string]int `json:"probes"`
	LiveAtEnd    int            `json:"live_at_end"`
	Deadlock     string         `json:"deadlock,omitempty"`
	Crash        string         `json:"crash,omitempty"`
	CrashStack   string         `json:"crash_stack,omitempty"`
	Hang         string         `json:"hang,omitempty"`
	YCalls       uint64         `json:"y_calls"`
	Races        []string       `json:"races,omitempty"`
}

type FileObs struct {
	Name string `json:"name"`
	Size int64  `json:"size"`
	Sha  string `json:"sha"`
}

// CompileResult is the observable outcome of one compiler invocation.
type CompileResult struct {
	Exit   int       `json:"exit"`
	Stdout string    `json:"stdout"`
	Stderr string    `json:"stderr"`
	Files  []FileObs `json:"files"`
	Sim    SimStats  `json:"sim"`
	Done   bool      `json:"done"`
}

func (c *CompileResult) File(name string) (FileObs, bool) {
	for _, f := range c.Files {
		if f.Name == name {
			return f, true
		}
	}
	return FileObs{}, false
}

// Project is a set of source files relative to the project directory.
type Project struct {
	Dir   string            `json:"dir"`   // directory name = project name used in import paths
	Files map[string]string `json:"files"` // relative path -> content
	Entry string            `json:"entry"` // relative path of the entry file
	Dirs  []string          `json:"dirs,omitempty"`
}

// Unit is one compiler invocation.
type Unit struct {
	Project       Project `json:"project"`
	Backend       string  `json:"backend"` // "native" or "wasm"
	Plan          Plan    `json:"plan"`
	KeepGen       bool    `json:"keep_gen"`
	TypecheckOnly bool    `json:"typecheck_only,omitempty"`
	Tools         string  `json:"tools"` // "real": bundled as/ld; "stub": stand-ins that only create their output file
}

// Spec is one run: a history of compiler invocations in ONE process. The unit
// under judgement is the last one unless a judge says otherwise; the earlier
// ones are the history that process-global state has seen.
type Spec struct {
	Units []Unit `json:"units"`
}

func One(u Unit) *Spec { return &Spec{Units: []Unit{u}} }

// RunResult is what the orchestrator learns from one run.
type RunResult struct {
	Results    []CompileResult `json:"results"`
	ProcExit   int             `json:"proc_exit"`
	ProcSignal string          `json:"proc_signal,omitempty"`
	ProcStderr string          `json:"proc_stderr,omitempty"`
	TimedOut   bool            `json:"timed_out,omitempty"`
	WallMS     int64           `json:"wall_ms"`
	CPUMS      int64           `json:"cpu_ms"`
	RunDir     string          `json:"-"`
}

// UnitDir is the directory of unit i inside the run directory.
func (rr *RunResult) UnitDir(i int) string { return filepath.Join(rr.RunDir, fmt.Sprintf("u%d", i)) }

// childEnv: the simulated compiler runs one goroutine at a time, so one P is
// enough; more only adds scheduler and GC threads that fight over the cores.
var childEnv = append(os.Environ(), "GOMAXPROCS=1", "GOGC=200", "AS=", "LD=", "FERRET_TOOLCHAIN_PATH=")

// RunTimeout is the wall-clock cap of one run, per unit.
var RunTimeout = 240 * time.Second

func (p *Project) Materialise(root string) (projDir string, err error) {
	projDir = filepath.Join(root, p.Dir)
	if err = os.MkdirAll(projDir, 0755); err != nil {
		return
	}
	for _, d := range p.Dirs {
		if err = os.MkdirAll(filepath.Join(projDir, d), 0755); err != nil {
			return
		}
	}
	names := make([]string, 0, len(p.Files))
	for n := range p.Files {
		names = append(names, n)
	}
	sort.Strings(names)
	for _, n := range names {
		fp := filepath.Join(projDir, n)
		if err = os.MkdirAll(filepath.Dir(fp), 0755); err != nil {
			return
		}
		if err = os.WriteFile(fp, []byte(p.Files[n]), 0644); err != nil {
			return
		}
	}
	return
}

// Exec runs spec with the simulated compiler. The run directory is left in
// place (caller removes it with Cleanup) so that artifacts can be inspected.
func (b *Build) Exec(spec *Spec) *RunResult {
	return b.exec(spec, b.Sim)
}

type harnessCompile struct {
	Argv    []string          `json:"argv"`
	Plan    Plan              `json:"plan"`
	Collect []string          `json:"collect"`
	SnapDir string            `json:"snap_dir"`
	Env     map[string]string `json:"env"`
	Cwd     string            `json:"cwd"`
}

type harnessJob struct {
	Compiles []harnessCompile `json:"compiles"`
	WorkDir  string           `json:"work_dir"`
	Report   string           `json:"report"`
}

func (b *Build) exec(spec *Spec, bin string) *RunResult { return b.execEnv(spec, bin, childEnv) }

func (b *Build) execEnv(spec *Spec, bin string, procEnv []string) *RunResult {
	rd := b.NewRunDir()
	rr := &RunResult{RunDir: rd}
	job := harnessJob{WorkDir: filepath.Join(rd, "work"), Report: filepath.Join(rd, "report.json")}
	for i, u := range spec.Units {
		ud := rr.UnitDir(i)
		projDir, err := u.Project.Materialise(filepath.Join(ud, "proj"))
		if err != nil {
			rr.ProcExit = -3
			rr.ProcStderr = "materialise: " + err.Error()
			return rr
		}
		outDir := filepath.Join(ud, "out")
		argv := []string{}
		if u.KeepGen {
			argv = append(argv, "-keep-gen")
		}
		if u.TypecheckOnly {
			argv = append(argv, "-t")
		}
		if u.Backend == "wasm" {
			argv = append(argv, "-target", "wasm")
		}
		argv = append(argv, "-o", filepath.Join(outDir, "app"), filepath.Join(projDir, u.Project.Entry))
		env := map[string]string{"FERRET_LIBS_PATH": b.Libs, "FERRET_AS": "", "FERRET_LD": ""}
		if u.Tools == "stub" {
			env["FERRET_AS"] = b.Stub
			env["FERRET_LD"] = b.Stub
		}
		job.Compiles = append(job.Compiles, harnessCompile{
			Argv: argv, Plan: u.Plan, Collect: []string{outDir},
			SnapDir: filepath.Join(ud, "snap"), Env: env, Cwd: ud,
		})
	}
	jp := filepath.Join(rd, "job.json")
	data, _ := json.Marshal(job)
	os.WriteFile(jp, data, 0644)
	pr := core.RunProc(RunTimeout*time.Duration(len(spec.Units)), rd, procEnv, nil, bin, jp)
	rr.ProcExit = pr.ExitCode
	rr.ProcSignal = pr.Signal
	rr.TimedOut = pr.TimedOut
	rr.WallMS = pr.Wall.Milliseconds()
	rr.CPUMS = pr.CPU.Milliseconds()
	se := string(pr.Stderr)
	if len(se) > 20000 {
		se = se[:20000]
	}
	rr.ProcStderr = se
	if rep, err := os.ReadFile(job.Report); err == nil {
		var r struct {
			Results []CompileResult `json:"results"`
		}
		if json.Unmarshal(rep, &r) == nil {
			rr.Results = r.Results
		}
	}
	return rr
}

func (rr *RunResult) Cleanup() {
	if rr != nil && rr.RunDir != "" {
		os.RemoveAll(rr.RunDir)
	}
}

// SnapFile reads a file of unit i's snapshot (e.g. "out/gen/p_main.ssa").
func (rr *RunResult) SnapFile(i int, name string) ([]byte, error) {
	return os.ReadFile(filepath.Join(rr.UnitDir(i), "snap", name))
}

func shaHex(data []byte) string {
	h := sha256.Sum256(data)
	return hex.EncodeToString(h[:])
}

var ansiRe = regexp.MustCompile(`\x1b\[[0-9;]*[A-Za-z]`)

// Normalise strips ANSI colour codes and replaces the per-unit directory.
func Normalise(s, dir string) string {
	s = ansiRe.ReplaceAllString(s, "")
	if dir != "" {
		s = strings.ReplaceAll(s, dir, "<RUN>")
	}
	return s
}

// HasErrorDiagnostic reports whether the compiler printed an error diagnostic:
// a header "error: ..." / "error[CODE]: ..." or the failure summary.
var errHeadRe = regexp.MustCompile(`(?m)^\s*error(\[[A-Z]*[0-9]+\])?:`)

func HasErrorDiagnostic(stderrNorm string) bool {
	return errHeadRe.MatchString(stderrNorm) || strings.Contains(stderrNorm, "Compilation failed with")
}
