package schedsim

import (
	"verif/internal/core"
)

// Strategies are the randomised scheduling strategies (fifo and lifo are
// deterministic and are run once per case, not drawn).
var Strategies = []string{"random", "random", "random", "sticky50", "sticky50", "sticky90", "winpre", "winpre", "winpre", "pct1", "pct2", "pct3"}

// RandomPlan draws a schedule strategy and a map-order mode (swarm style:
// every run gets its own mix).
func RandomPlan(r *core.Rng, fineChance int) Plan {
	p := Plan{
		Strategy: core.Pick(r, Strategies),
		Seed:     r.Uint64() >> 1,
		MapSeed:  r.Uint64() >> 1,
		PCTLen:   50 + r.Intn(400),
	}
	switch x := r.Intn(100); {
	case x < 15:
		p.MapMode = "identity"
	case x < 65:
		p.MapMode = "random"
	case x < 80:
		p.MapMode = "reverse"
	default:
		p.MapMode = "rotate"
	}
	if fineChance > 0 && r.Intn(100) < fineChance {
		p.Fine = true
		p.FineProb = []int{1, 2, 4, 8, 16, 64}[r.Intn(6)]
		p.PCTLen = 200 + r.Intn(4000)
	}
	return p
}

// SchedOnly keeps the schedule and makes map order canonical.
func (p Plan) SchedOnly() Plan {
	p.MapMode = "identity"
	p.MapSites = nil
	return p
}

// TapePlan converts a run's recorded decisions into a replayable plan.
func TapePlan(p Plan, tape []int) Plan {
	q := p
	q.Strategy = "tape"
	q.Tape = append([]int(nil), tape...)
	return q
}
