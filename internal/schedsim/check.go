package schedsim

import (
	"encoding/json"
	"fmt"
	"os"
	"path/filepath"
	"regexp"
	"sort"
	"strings"
	"sync"
	"time"

	"verif/internal/core"
)

// Issue is one way in which a run violates a property.
type Issue struct {
	Class  string `json:"class"`  // violation class: shrinking keeps it, known findings match it
	Detail string `json:"detail"` // human-readable
}

// Judge evaluates a spec (running whatever it needs) and returns the issues of
// its LAST unit, given the earlier units as process history. Harness trouble
// (the simulator itself failing) is reported through err.
type Judge func(b *Build, spec *Spec) (issues []Issue, err error)

// UnitJudge evaluates the result of unit i of an executed run.
type UnitJudge func(u *Unit, rr *RunResult, i int) []Issue

// Replay is the replay file.
type Replay struct {
	Property string   `json:"property"`
	Class    string   `json:"class"`
	Detail   string   `json:"detail"`
	Seed     uint64   `json:"seed"`
	Spec     Spec     `json:"spec"`
	Graph    *Graph   `json:"graph,omitempty"` // C15: the import graph the project was rendered from
	Note     string   `json:"note,omitempty"`
	Shrunk   bool     `json:"shrunk"`
	Steps    []string `json:"shrink_log,omitempty"`
}

// procTrouble classifies a run whose process did not deliver a report for a
// unit. A Go runtime fatal error (stack overflow, concurrent map write, out of
// memory) of the compiler is an internal crash of the compiler; anything else
// is harness trouble.
func procTrouble(rr *RunResult) (issue *Issue, harnessErr error) {
	if rr.TimedOut {
		return &Issue{Class: "hang:wall-clock", Detail: fmt.Sprintf("no result after the wall-clock cap (cpu %d ms)", rr.CPUMS)}, nil
	}
	se := rr.ProcStderr
	switch {
	case qbeAssertRe.MatchString(se):
		m := qbeAssertRe.FindStringSubmatch(se)
		return &Issue{Class: "crash:qbe-assert:" + m[1] + ":" + m[2], Detail: "the embedded QBE aborted the compiler: " + strings.TrimSpace(m[0])}, nil
	case strings.Contains(se, "fatal error: stack overflow") || strings.Contains(se, "goroutine stack exceeds"):
		return &Issue{Class: "crash:stack-overflow@" + topRepoFrame(se), Detail: "unbounded recursion: " + firstLines(se, 3)}, nil
	case strings.Contains(se, "fatal error: concurrent map"):
		return &Issue{Class: "crash:concurrent-map@" + topRepoFrame(se), Detail: firstLines(se, 3)}, nil
	case strings.Contains(se, "fatal error: runtime: out of memory") || strings.Contains(se, "cannot allocate memory"):
		return &Issue{Class: "crash:out-of-memory", Detail: firstLines(se, 3)}, nil
	case strings.Contains(se, "fatal error:") || strings.Contains(se, "SIGSEGV") || rr.ProcSignal != "":
		return &Issue{Class: "crash:fatal@" + topRepoFrame(se), Detail: "signal=" + rr.ProcSignal + " " + firstLines(se, 4)}, nil
	}
	return nil, fmt.Errorf("simulated compiler ended without a report: exit=%d signal=%q stderr=%s", rr.ProcExit, rr.ProcSignal, firstLines(se, 12))
}

var qbeAssertRe = regexp.MustCompile(`([a-z0-9_]+\.c):[0-9]+: (\w+): Assertion [^\n]*failed`)

func firstLines(s string, n int) string {
	ls := strings.Split(strings.TrimSpace(s), "\n")
	if len(ls) > n {
		ls = ls[:n]
	}
	return strings.Join(ls, " | ")
}

// topRepoFrame names the innermost stack frame that is in the compiler's own
// packages (not the simulator, not the Go runtime) by its function, e.g.
// "diagnostics.(*Diagnostic).WithLabel". Function names survive unrelated
// edits of a file; line numbers do not.
func topRepoFrame(stack string) string {
	lines := strings.Split(stack, "\n")
	for k, l := range lines {
		l = strings.TrimSpace(l)
		i := strings.Index(l, "/sim/")
		if i < 0 || !strings.Contains(l, ".go:") {
			continue
		}
		p := l[i+len("/sim/"):]
		if strings.HasPrefix(p, "zsim/") || strings.HasPrefix(p, "zsim_harness.go") {
			continue
		}
		if k == 0 {
			continue
		}
		fn := strings.TrimSpace(lines[k-1])
		if j := strings.LastIndex(fn, "("); j > 0 {
			fn = fn[:j]
		}
		fn = strings.TrimPrefix(fn, "compiler/internal/")
		fn = strings.TrimPrefix(fn, "compiler/")
		if j := strings.LastIndex(fn, "/"); j >= 0 {
			fn = fn[j+1:]
		}
		if fn == "" {
			continue
		}
		return fn
	}
	return "?"
}

// simIssues reports crash / deadlock / hang / leaked goroutines of one compile.
func simIssues(c *CompileResult) []Issue {
	var out []Issue
	if c.Sim.Crash != "" {
		out = append(out, Issue{Class: "crash@" + topRepoFrame(c.Sim.CrashStack), Detail: c.Sim.Crash})
	}
	if c.Sim.Deadlock != "" {
		out = append(out, Issue{Class: "deadlock", Detail: c.Sim.Deadlock})
	}
	if c.Sim.Hang != "" {
		out = append(out, Issue{Class: "hang@" + topRepoFrame(c.Sim.CrashStack), Detail: c.Sim.Hang})
	}
	for _, r := range c.Sim.Races {
		// kind|site of the earlier write|site of the later write|goroutines
		f := strings.SplitN(r, "|", 4)
		if len(f) < 4 {
			continue
		}
		if f[2] < f[1] {
			f[1], f[2] = f[2], f[1]
		}
		if f[0] == "map-read-write" {
			out = append(out, Issue{Class: "crash:concurrent-map-read-write@" + f[1] + "+" + f[2],
				Detail: fmt.Sprintf("%s read and write the same map at %s and %s with no happens-before edge between the accesses: on a multi-core machine the Go runtime aborts with 'fatal error: concurrent map read and map write'", f[3], f[1], f[2])})
		} else if f[0] == "map-write" {
			out = append(out, Issue{Class: "crash:concurrent-map-write@" + f[1] + "+" + f[2],
				Detail: fmt.Sprintf("%s write the same map at %s and %s with no happens-before edge between the writes: on a multi-core machine the Go runtime aborts with 'fatal error: concurrent map writes'", f[3], f[1], f[2])})
		} else if f[0] == "read-update" {
			out = append(out, Issue{Class: "unsynchronised-read@" + f[1] + "+" + f[2],
				Detail: fmt.Sprintf("%s read and update the same field of a lock-carrying structure at %s and %s with no happens-before edge between the accesses (the reader can see the old value, the new one, or act on a value that is being replaced)", f[3], f[1], f[2])})
		} else {
			out = append(out, Issue{Class: "unsynchronised-update@" + f[1] + "+" + f[2],
				Detail: fmt.Sprintf("%s update the same location at %s and %s with no happens-before edge between the updates (one of them can be lost)", f[3], f[1], f[2])})
		}
	}
	if c.Done && c.Sim.LiveAtEnd > 0 {
		out = append(out, Issue{Class: "goroutines-outlive-compile", Detail: fmt.Sprintf("%d parser goroutine(s) still running when the compiler finished", c.Sim.LiveAtEnd)})
	}
	return out
}

// BatchOutcome is what RunBatch learned about one unit.
type BatchOutcome struct {
	Issues  []Issue
	Sim     SimStats
	Ran     bool
	Prefix  []int // indices (into the batch input) of the units that ran before it in the same process
	Trouble string
}

// RunBatch executes units in as few processes as possible (a process ends at
// the first crash, deadlock or hang; the remaining units continue in a new
// one) and judges every unit.
func RunBatch(b *Build, units []Unit, judge func(i int, rr *RunResult, k int) []Issue, keep func(i int, rr *RunResult, k int)) []BatchOutcome {
	out := make([]BatchOutcome, len(units))
	idx := make([]int, len(units))
	for i := range idx {
		idx[i] = i
	}
	for len(idx) > 0 {
		spec := &Spec{}
		for _, i := range idx {
			spec.Units = append(spec.Units, units[i])
		}
		rr := b.Exec(spec)
		n := len(rr.Results)
		progressed := 0
		for k := 0; k < n && k < len(idx); k++ {
			i := idx[k]
			c := &rr.Results[k]
			o := &out[i]
			o.Ran = true
			o.Sim = c.Sim
			o.Prefix = append([]int(nil), idx[:k]...)
			o.Issues = append(o.Issues, simIssues(c)...)
			if c.Done {
				o.Issues = append(o.Issues, judge(i, rr, k)...)
			}
			if keep != nil {
				keep(i, rr, k)
			}
			progressed++
		}
		if n < len(idx) {
			// the process ended early
			last := n - 1
			if n == 0 || rr.Results[last].Done {
				// no (partial) report for unit n: the process died outside the simulator's control
				i := idx[n]
				is, err := procTrouble(rr)
				o := &out[i]
				o.Ran = true
				o.Prefix = append([]int(nil), idx[:n]...)
				if err != nil {
					o.Trouble = err.Error()
				} else {
					o.Issues = append(o.Issues, *is)
				}
				progressed++
			}
		}
		rr.Cleanup()
		if progressed == 0 {
			out[idx[0]].Trouble = "batch made no progress"
			progressed = 1
		}
		idx = idx[progressed:]
	}
	return out
}

// JudgeLast builds a Judge from a UnitJudge: the spec is executed in one
// process and the last unit is judged.
func JudgeLast(uj UnitJudge) Judge {
	return func(b *Build, spec *Spec) ([]Issue, error) {
		rr := b.Exec(spec)
		defer rr.Cleanup()
		last := len(spec.Units) - 1
		if len(rr.Results) <= last {
			if len(rr.Results) > 0 && !rr.Results[len(rr.Results)-1].Done {
				// an earlier unit ended the process: the history is not what the spec says
				return nil, nil
			}
			is, err := procTrouble(rr)
			if err != nil {
				return nil, err
			}
			if len(rr.Results) < last {
				return nil, nil
			}
			return []Issue{*is}, nil
		}
		c := &rr.Results[last]
		issues := simIssues(c)
		if c.Done {
			issues = append(issues, uj(&spec.Units[last], rr, last)...)
		}
		return issues, nil
	}
}

// ---------------------------------------------------------------- shrinking

// ShrinkOpts selects what Shrink may touch.
type ShrinkOpts struct {
	Project bool
	Budget  int
	Time    time.Duration
}

// Shrink minimises spec while judge still reports an issue of class cls.
func Shrink(b *Build, spec Spec, cls string, judge Judge, opt ShrinkOpts) (Spec, []string) {
	var log []string
	evals := 0
	deadline := time.Now().Add(opt.Time)
	still := func(s *Spec) bool {
		if evals >= opt.Budget || time.Now().After(deadline) {
			return false
		}
		evals++
		issues, err := judge(b, s)
		if err != nil {
			return false
		}
		return hasClass(issues, cls)
	}
	cur := cloneSpec(&spec)

	// 0. history: drop everything but the last unit, else leading units one by one
	if len(cur.Units) > 1 {
		t := cloneSpec(cur)
		t.Units = t.Units[len(t.Units)-1:]
		if still(t) {
			cur = t
			log = append(log, "history dropped: the unit fails in a fresh process")
		} else {
			for i := 0; i < len(cur.Units)-1; {
				t := cloneSpec(cur)
				t.Units = append(t.Units[:i:i], t.Units[i+1:]...)
				if still(t) {
					cur = t
					log = append(log, "dropped one unit of the history")
				} else {
					i++
				}
			}
		}
	}

	for ui := range cur.Units {
		// 1. faults
		for fi := 0; fi < len(cur.Units[ui].Plan.Faults); {
			t := cloneSpec(cur)
			fs := t.Units[ui].Plan.Faults
			t.Units[ui].Plan.Faults = append(append([]Fault{}, fs[:fi]...), fs[fi+1:]...)
			if still(t) {
				cur = t
				log = append(log, "dropped a fault")
			} else {
				fi++
			}
		}

		// 2. map order: identity everywhere, else restrict sites
		if m := cur.Units[ui].Plan.MapMode; m != "identity" && m != "" {
			t := cloneSpec(cur)
			t.Units[ui].Plan.MapMode = "identity"
			t.Units[ui].Plan.MapSites = nil
			if still(t) {
				cur = t
				log = append(log, fmt.Sprintf("unit %d: map order made canonical", ui))
			} else {
				rr := b.Exec(cur)
				var sites []string
				if ui < len(rr.Results) {
					sites = core.SortedKeys(rr.Results[ui].Sim.MapSitesSeen)
				}
				rr.Cleanup()
				if len(sites) > 1 {
					keep := ddmin(sites, func(sub []string) bool {
						t := cloneSpec(cur)
						t.Units[ui].Plan.MapSites = sub
						return still(t)
					})
					if len(keep) < len(sites) && len(keep) > 0 {
						t := cloneSpec(cur)
						t.Units[ui].Plan.MapSites = keep
						if still(t) {
							cur = t
							log = append(log, fmt.Sprintf("unit %d: map permutation restricted to %d of %d sites: %v", ui, len(keep), len(sites), keep))
						}
					}
				}
			}
		}

		// 3. schedule: canonical first, then tape minimisation
		if cur.Units[ui].Plan.Strategy != "fifo" {
			t := cloneSpec(cur)
			t.Units[ui].Plan.Strategy = "fifo"
			t.Units[ui].Plan.Tape = nil
			t.Units[ui].Plan.Fine = false
			if still(t) {
				cur = t
				log = append(log, fmt.Sprintf("unit %d: schedule made canonical (FIFO)", ui))
			} else {
				if cur.Units[ui].Plan.Strategy != "tape" {
					rr := b.Exec(cur)
					var tape []int
					if ui < len(rr.Results) {
						tape = rr.Results[ui].Sim.Tape
					}
					rr.Cleanup()
					t := cloneSpec(cur)
					t.Units[ui].Plan = TapePlan(cur.Units[ui].Plan, tape)
					if still(t) {
						cur = t
						log = append(log, fmt.Sprintf("unit %d: schedule converted to a choice tape of %d decisions", ui, len(tape)))
					} else {
						log = append(log, fmt.Sprintf("unit %d: schedule could not be converted to a tape (kept as seeded strategy)", ui))
					}
				}
				if cur.Units[ui].Plan.Strategy == "tape" {
					tape := cur.Units[ui].Plan.Tape
					var nz []int
					for i, c := range tape {
						if c != 0 {
							nz = append(nz, i)
						}
					}
					mk := func(sub []int) *Spec {
						t := cloneSpec(cur)
						nt := make([]int, len(tape))
						for _, i := range sub {
							nt[i] = tape[i]
						}
						t.Units[ui].Plan.Tape = trimZeros(nt)
						return t
					}
					keepIdx := ddminInt(nz, func(sub []int) bool { return still(mk(sub)) })
					if len(keepIdx) < len(nz) {
						t := mk(keepIdx)
						if still(t) {
							cur = t
							log = append(log, fmt.Sprintf("unit %d: preemptions reduced from %d to %d", ui, len(nz), len(keepIdx)))
						}
					}
				}
			}
		}
	}

	// 4. project of the last unit (earlier units with the same project follow)
	if opt.Project {
		last := len(cur.Units) - 1
		same := func(s *Spec) []int {
			var ix []int
			for i := range s.Units {
				if projEqual(&s.Units[i].Project, &s.Units[last].Project) {
					ix = append(ix, i)
				}
			}
			return ix
		}
		apply := func(mut func(p *Project)) *Spec {
			t := cloneSpec(cur)
			for _, i := range same(cur) {
				mut(&t.Units[i].Project)
			}
			return t
		}
		names := []string{}
		for n := range cur.Units[last].Project.Files {
			if n != cur.Units[last].Project.Entry {
				names = append(names, n)
			}
		}
		sort.Strings(names)
		for _, n := range names {
			t := apply(func(p *Project) { delete(p.Files, n) })
			if still(t) {
				cur = t
				log = append(log, "dropped file "+n)
			}
		}
		for _, n := range core.SortedKeys(cur.Units[last].Project.Files) {
			lines := strings.SplitAfter(cur.Units[last].Project.Files[n], "\n")
			if len(lines) <= 1 {
				continue
			}
			keep := ddmin(lines, func(sub []string) bool {
				return still(apply(func(p *Project) { p.Files[n] = strings.Join(sub, "") }))
			})
			if len(keep) < len(lines) {
				t := apply(func(p *Project) { p.Files[n] = strings.Join(keep, "") })
				if still(t) {
					cur = t
					log = append(log, fmt.Sprintf("%s: %d -> %d lines", n, len(lines), len(keep)))
				}
			}
		}
	}
	log = append(log, fmt.Sprintf("%d judge evaluations", evals))
	return *cur, log
}

func projEqual(a, b *Project) bool {
	if a.Dir != b.Dir || a.Entry != b.Entry || len(a.Files) != len(b.Files) {
		return false
	}
	for k, v := range a.Files {
		if b.Files[k] != v {
			return false
		}
	}
	return true
}

func trimZeros(t []int) []int {
	n := len(t)
	for n > 0 && t[n-1] == 0 {
		n--
	}
	return t[:n]
}

func cloneUnit(u *Unit) Unit {
	c := *u
	c.Project.Files = map[string]string{}
	for k, v := range u.Project.Files {
		c.Project.Files[k] = v
	}
	c.Project.Dirs = append([]string(nil), u.Project.Dirs...)
	c.Plan.Tape = append([]int(nil), u.Plan.Tape...)
	c.Plan.Faults = append([]Fault(nil), u.Plan.Faults...)
	c.Plan.MapSites = append([]string(nil), u.Plan.MapSites...)
	return c
}

func cloneSpec(s *Spec) *Spec {
	c := &Spec{}
	for i := range s.Units {
		c.Units = append(c.Units, cloneUnit(&s.Units[i]))
	}
	return c
}

// ddmin returns a (1-minimal-ish) subsequence of xs for which test holds;
// test(xs) is assumed true.
func ddmin[T any](xs []T, test func([]T) bool) []T {
	n := 2
	for len(xs) >= 2 {
		chunk := (len(xs) + n - 1) / n
		reduced := false
		for start := 0; start < len(xs); start += chunk {
			end := start + chunk
			if end > len(xs) {
				end = len(xs)
			}
			comp := append(append([]T{}, xs[:start]...), xs[end:]...)
			if len(comp) > 0 && test(comp) {
				xs = comp
				if n > 2 {
					n--
				}
				reduced = true
				break
			}
		}
		if !reduced {
			if n >= len(xs) {
				break
			}
			n *= 2
			if n > len(xs) {
				n = len(xs)
			}
		}
	}
	return xs
}

func ddminInt(xs []int, test func([]int) bool) []int {
	if len(xs) == 0 {
		return xs
	}
	if test(nil) {
		return nil
	}
	return ddmin(xs, test)
}

// ---------------------------------------------------------------- reporting

// Candidate is a failing spec waiting to be confirmed, shrunk and reported.
type Candidate struct {
	Issue  Issue
	Alone  *Spec // the unit in a fresh process
	InHist *Spec // the unit after the units that preceded it in its batch
	Judge  Judge
	Graph  *Graph
	Count  int
}

// Reporter collects violations of one check, shrinks, confirms and prints them.
type Reporter struct {
	Property string
	Seed     uint64
	Build    *Build
	Findings *core.Findings
	Shrink   ShrinkOpts

	mu         sync.Mutex
	cands      map[string]*Candidate
	order      []string
	Violations int
	KnownHits  map[string]int
	Trouble    []string
}

func NewReporter(prop string, seed uint64, b *Build) (*Reporter, error) {
	f, err := core.LoadFindings()
	if err != nil {
		return nil, err
	}
	return &Reporter{Property: prop, Seed: seed, Build: b, Findings: f, cands: map[string]*Candidate{},
		KnownHits: map[string]int{}, Shrink: ShrinkOpts{Project: true, Budget: 400, Time: 4 * time.Minute}}, nil
}

// Note records an issue (thread-safe); the first spec per class is kept.
func (r *Reporter) Note(is Issue, alone, inHist *Spec, judge Judge, g *Graph) {
	r.mu.Lock()
	defer r.mu.Unlock()
	c, ok := r.cands[is.Class]
	if !ok {
		c = &Candidate{Issue: is, Alone: alone, InHist: inHist, Judge: judge, Graph: g}
		r.cands[is.Class] = c
		r.order = append(r.order, is.Class)
	}
	c.Count++
}

func (r *Reporter) NoteTrouble(msg string) {
	r.mu.Lock()
	defer r.mu.Unlock()
	if len(r.Trouble) < 20 {
		r.Trouble = append(r.Trouble, msg)
	}
}

func (r *Reporter) Classes() map[string]int {
	m := map[string]int{}
	for k, c := range r.cands {
		m[k] = c.Count
	}
	return m
}

// Finish confirms, shrinks and prints each distinct class and returns the
// process exit code: 0 held, 1 violation, 2 harness trouble.
func (r *Reporter) Finish() int {
	sort.Strings(r.order)
	exit := 0
	for _, cls := range r.order {
		c := r.cands[cls]
		if kf := r.Findings.Match(r.Property, cls); kf != nil {
			r.KnownHits[cls] = c.Count
			fmt.Printf("KNOWN-FINDING: property=%s %s [%s] (%d runs)\n", r.Property, kf.What, cls, c.Count)
			continue
		}
		// confirm in a fresh process: alone first, then with its history
		var spec *Spec
		for _, cand := range []*Spec{c.Alone, c.InHist} {
			if cand == nil {
				continue
			}
			issues, err := c.Judge(r.Build, cand)
			if err == nil && hasClass(issues, cls) {
				spec = cand
				break
			}
		}
		if spec == nil {
			r.Trouble = append(r.Trouble, fmt.Sprintf("issue %q (%s) did not reproduce on re-execution", cls, c.Issue.Detail))
			continue
		}
		shr, log := Shrink(r.Build, *spec, cls, c.Judge, r.Shrink)
		rep := Replay{Property: r.Property, Class: cls, Detail: c.Issue.Detail, Seed: r.Seed, Spec: shr, Shrunk: true, Steps: log, Graph: c.Graph}
		issues, err := c.Judge(r.Build, &shr)
		if err != nil || !hasClass(issues, cls) {
			rep.Spec = *spec
			rep.Shrunk = false
			rep.Note = "minimised spec did not reproduce; original spec kept"
		} else {
			for _, is := range issues {
				if is.Class == cls {
					rep.Detail = is.Detail
				}
			}
		}
		path := filepath.Join(core.VerifDir(), "replays", fmt.Sprintf("%s-%s.json", r.Property, sanitize(cls)))
		if err := core.WriteJSON(path, rep); err != nil {
			r.Trouble = append(r.Trouble, "cannot write replay: "+err.Error())
			continue
		}
		r.Violations++
		exit = 1
		fmt.Printf("VIOLATION property=%s replay=%s\n", r.Property, path)
		fmt.Printf("  class: %s\n  detail: %s\n  seen in %d run(s); minimised: %s\n", cls, rep.Detail, c.Count, strings.Join(log, "; "))
	}
	if len(r.Trouble) > 0 {
		for _, t := range r.Trouble {
			fmt.Fprintln(os.Stderr, "HARNESS-TROUBLE:", t)
		}
		if exit == 0 {
			exit = 2
		}
	}
	return exit
}

func hasClass(issues []Issue, cls string) bool {
	for _, is := range issues {
		if is.Class == cls {
			return true
		}
	}
	return false
}

func sanitize(s string) string {
	var b strings.Builder
	for _, c := range s {
		switch {
		case c >= 'a' && c <= 'z', c >= 'A' && c <= 'Z', c >= '0' && c <= '9', c == '-', c == '_', c == '.':
			b.WriteRune(c)
		default:
			b.WriteByte('_')
		}
	}
	out := b.String()
	if len(out) > 80 {
		out = out[:80]
	}
	return out
}

// ReplayFile re-executes a replay file against a fresh build of /repo's
// working tree and reports whether the recorded violation reproduces.
func ReplayFile(path string) int {
	data, err := os.ReadFile(path)
	if err != nil {
		fmt.Fprintln(os.Stderr, "replay:", err)
		return 2
	}
	var rep Replay
	if err := json.Unmarshal(data, &rep); err != nil {
		fmt.Fprintln(os.Stderr, "replay:", err)
		return 2
	}
	b, err := Prepare("replay", true)
	if err != nil {
		fmt.Fprintln(os.Stderr, "replay: build failed:", err)
		if b != nil {
			b.Close()
		}
		return 2
	}
	defer b.Close()
	var judge Judge
	switch rep.Property {
	case "C15":
		if rep.Graph == nil {
			fmt.Fprintln(os.Stderr, "replay: C15 replay without graph")
			return 2
		}
		judge = JudgeLast(UnitJudgeC15(rep.Graph))
	default:
		judge = JudgeFor(rep.Property)
	}
	if judge == nil {
		fmt.Fprintln(os.Stderr, "replay: no judge for property", rep.Property)
		return 2
	}
	issues, err := judge(b, &rep.Spec)
	if err != nil {
		fmt.Fprintln(os.Stderr, "replay: harness trouble:", err)
		return 2
	}
	for _, is := range issues {
		fmt.Printf("issue: %s — %s\n", is.Class, is.Detail)
	}
	// C14's history comparison tags its classes; the judge itself reports the plain class
	if hasClass(issues, rep.Class) || hasClass(issues, strings.TrimSuffix(rep.Class, ":after-other-project")) {
		fmt.Printf("VIOLATION property=%s replay=%s\n", rep.Property, path)
		return 1
	}
	fmt.Printf("replay: violation class %q did not reproduce (%d other issue(s))\n", rep.Class, len(issues))
	return 0
}

// JudgeFor returns the judge of a property whose oracle needs nothing but the spec.
func JudgeFor(prop string) Judge {
	switch prop {
	case "C14":
		return JudgeC14
	case "C13":
		return JudgeLast(func(u *Unit, rr *RunResult, i int) []Issue { return judgeC13Unit(u, rr, i) })
	}
	return nil
}
