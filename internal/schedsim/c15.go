package schedsim

import (
	"fmt"
	"os"
	"path/filepath"
	"strings"
	"time"

	"verif/internal/core"
)

// ---------------------------------------------------------------- graphs

// Graph is an import graph: node 0 is main. Edge kinds: 1 plain, 2 aliased,
// 3 repeated (plain + aliased import of the same module).
type Graph struct {
	N     int     `json:"n"`
	Edges [][]int `json:"edges"` // Edges[i][j] = kind of the import i -> j (0: none)
	// Names selects the module names: 0 a, b, c, ...; 1 a, ab, abc, ... (every
	// name a prefix of the next); 2 z, y, x, ... (later modules sort first, and
	// all of them after "main")
	Names int `json:"names,omitempty"`
}

func (g *Graph) name(i int) string {
	if i == 0 {
		return "main"
	}
	switch g.Names {
	case 1:
		return "abcdefghijklmnop"[:i]
	case 2:
		return string(rune('z' - i + 1))
	}
	return string(rune('a' + i - 1))
}

// nodeVal gives every module its own bit so that the printed sum tells which
// modules contributed (with multiplicity along distinct paths).
func nodeVal(i int) int64 { return int64(1) << uint(2*i) }

// Reachable returns the set reachable from main and whether that subgraph has a cycle.
func (g *Graph) Reachable() (reach []bool, cyclic bool) {
	reach = make([]bool, g.N)
	state := make([]int, g.N) // 0 new, 1 on stack, 2 done
	var dfs func(i int)
	dfs = func(i int) {
		reach[i] = true
		state[i] = 1
		for j := 0; j < g.N; j++ {
			if g.Edges[i][j] == 0 {
				continue
			}
			switch state[j] {
			case 0:
				dfs(j)
			case 1:
				cyclic = true
			}
		}
		state[i] = 2
	}
	dfs(0)
	return
}

// ReachableSelfLoop reports whether a module reachable from main imports itself.
func (g *Graph) ReachableSelfLoop() bool {
	reach, _ := g.Reachable()
	for i := 0; i < g.N; i++ {
		if reach[i] && g.Edges[i][i] != 0 {
			return true
		}
	}
	return false
}

// Value is what V() of node i returns in an acyclic graph.
func (g *Graph) Value(i int, memo map[int]int64) int64 {
	if v, ok := memo[i]; ok {
		return v
	}
	v := nodeVal(i)
	for j := 0; j < g.N; j++ {
		switch g.Edges[i][j] {
		case 1, 2:
			v += g.Value(j, memo)
		case 3:
			v += 2 * g.Value(j, memo)
		}
	}
	memo[i] = v
	return v
}

func (g *Graph) String() string {
	var parts []string
	for i := 0; i < g.N; i++ {
		for j := 0; j < g.N; j++ {
			if k := g.Edges[i][j]; k != 0 {
				parts = append(parts, fmt.Sprintf("%s->%s%s", g.name(i), g.name(j), []string{"", "", "(as)", "(x2)"}[k]))
			}
		}
	}
	return fmt.Sprintf("n=%d {%s}", g.N, strings.Join(parts, " "))
}

// Project renders the graph as a Ferret project "p".
func (g *Graph) Project() Project {
	p := Project{Dir: "p", Files: map[string]string{}, Entry: "main.fer"}
	for i := 0; i < g.N; i++ {
		var b strings.Builder
		if i == 0 {
			b.WriteString("import \"std/io\";\n")
		}
		var terms []string
		var via strings.Builder
		// every module also exports a type; an importer names it in a signature,
		// which only resolves when the dependency was processed first
		useType := func(q string, j int) {
			fmt.Fprintf(&via, "fn Via%s() -> %s::P {\n    return %s::Mk();\n}\n\n", q, q, q)
			terms = append(terms, fmt.Sprintf("Via%s().X - %d", q, nodeVal(j)))
			// ... and in a type declaration of its own (a struct field): resolved when
			// this module's types are collected, so the dependency must come first
			fmt.Fprintf(&via, "type W%s struct {\n    .Inner: %s::P\n};\n\nfn Wrap%s() -> i64 {\n    let boxed: W%s = { .Inner = %s::Mk() };\n    return boxed.Inner.X;\n}\n\n", q, q, q, q, q)
			terms = append(terms, fmt.Sprintf("Wrap%s() - %d", q, nodeVal(j)))
			// and the types j's own signatures take from ITS dependencies (two hops away)
			for k := 0; k < g.N; k++ {
				kn := g.name(k)
				switch g.Edges[j][k] {
				case 1:
					terms = append(terms, fmt.Sprintf("%s::Via%s().X - %d", q, kn, nodeVal(k)))
				case 2:
					terms = append(terms, fmt.Sprintf("%s::Viax%s().X - %d", q, kn, nodeVal(k)))
				case 3:
					terms = append(terms, fmt.Sprintf("%s::Via%s().X - %d", q, kn, nodeVal(k)), fmt.Sprintf("%s::Viax%s().X - %d", q, kn, nodeVal(k)))
				}
			}
		}
		for j := 0; j < g.N; j++ {
			n := g.name(j)
			switch g.Edges[i][j] {
			case 1:
				fmt.Fprintf(&b, "import \"p/%s\";\n", n)
				terms = append(terms, n+"::V()")
				useType(n, j)
			case 2:
				fmt.Fprintf(&b, "import \"p/%s\" as x%s;\n", n, n)
				terms = append(terms, "x"+n+"::V()")
				useType("x"+n, j)
			case 3:
				fmt.Fprintf(&b, "import \"p/%s\";\n", n)
				fmt.Fprintf(&b, "import \"p/%s\" as x%s;\n", n, n)
				terms = append(terms, n+"::V()", "x"+n+"::V()")
				useType(n, j)
				useType("x"+n, j)
			}
		}
		fmt.Fprintf(&b, "\ntype P struct {\n    .X: i64\n};\n\nfn Mk() -> P {\n    return { .X = %d } as P;\n}\n\n", nodeVal(i))
		b.WriteString(via.String())
		fmt.Fprintf(&b, "fn V() -> i64 {\n    return %d", nodeVal(i))
		for _, t := range terms {
			b.WriteString(" + " + t)
		}
		b.WriteString(";\n}\n")
		if i == 0 {
			b.WriteString("\nfn main() {\n    io::Println(V());\n}\n")
		}
		p.Files[g.name(i)+".fer"] = b.String()
	}
	return p
}

// AllGraphs3 enumerates all 512 directed graphs (self loops included) on
// {main, a, b} with plain edges.
func AllGraphs3() []*Graph {
	var out []*Graph
	for mask := 0; mask < 512; mask++ {
		g := &Graph{N: 3, Edges: make([][]int, 3)}
		for i := 0; i < 3; i++ {
			g.Edges[i] = make([]int, 3)
			for j := 0; j < 3; j++ {
				if mask&(1<<uint(i*3+j)) != 0 {
					g.Edges[i][j] = 1
				}
			}
		}
		out = append(out, g)
	}
	return out
}

// RandomGraph draws a graph on n nodes biased towards the shapes named in the
// property: chains, diamonds, shared leaves, back edges, overlapping cycles.
func RandomGraph(r *core.Rng, n int) *Graph {
	g := &Graph{N: n, Edges: make([][]int, n)}
	for i := range g.Edges {
		g.Edges[i] = make([]int, n)
	}
	kind := func() int {
		switch x := r.Intn(10); {
		case x < 6:
			return 1
		case x < 8:
			return 2
		default:
			return 3
		}
	}
	shape := r.Intn(6)
	switch shape {
	case 0: // chain
		for i := 0; i+1 < n; i++ {
			g.Edges[i][i+1] = kind()
		}
	case 1: // diamond(s): main -> all middle -> last
		for i := 1; i+1 < n; i++ {
			g.Edges[0][i] = kind()
			g.Edges[i][n-1] = kind()
		}
	case 2: // shared leaf + chain
		for i := 0; i+1 < n; i++ {
			g.Edges[i][n-1] = kind()
			if i+2 < n {
				g.Edges[i][i+1] = kind()
			}
		}
	case 3: // random DAG (forward edges)
		for i := 0; i < n; i++ {
			for j := i + 1; j < n; j++ {
				if r.Chance(1, 2) {
					g.Edges[i][j] = kind()
				}
			}
		}
		if n > 1 {
			g.Edges[0][1+r.Intn(n-1)] = kind()
		}
	case 4: // dense forward
		for i := 0; i < n; i++ {
			for j := i + 1; j < n; j++ {
				g.Edges[i][j] = kind()
			}
		}
	default: // sparse random
		for i := 0; i < n; i++ {
			for j := 0; j < n; j++ {
				if i != j && r.Chance(1, 4) {
					g.Edges[i][j] = kind()
				}
			}
		}
	}
	if r.Chance(1, 3) {
		g.Names = 1 + r.Intn(2)
	}
	// back edges / self loops in about half of the graphs
	if r.Chance(1, 2) {
		k := 1 + r.Intn(2)
		for ; k > 0; k-- {
			i := r.Intn(n)
			j := r.Intn(i + 1) // j <= i: back edge or self loop
			g.Edges[i][j] = kind()
		}
	}
	return g
}

// ---------------------------------------------------------------- oracle

func ssaName(mod string) string { return "out/gen/p_" + mod + ".ssa" }

// UnitJudgeC15 is the oracle of C15 for units whose project was rendered from g.
func UnitJudgeC15(g *Graph) UnitJudge {
	return func(u *Unit, rr *RunResult, i int) []Issue {
		return judgeC15Unit(g, u, rr, i)
	}
}

func judgeC15Unit(g *Graph, u *Unit, rr *RunResult, i int) []Issue {
	var issues []Issue
	reach, cyclic := g.Reachable()
	c := &rr.Results[i]
	ud := rr.UnitDir(i)
	serr := Normalise(c.Stderr, ud)
	_, haveExe := c.File("out/app")
	if cyclic {
		if c.Exit == 0 {
			issues = append(issues, Issue{"cyclic-accepted", "import cycle reachable from main but the compiler exited 0"})
		}
		if !strings.Contains(strings.ToLower(serr), "circular import") {
			issues = append(issues, Issue{"cyclic-no-diagnostic", "import cycle but no circular-import diagnostic; stderr: " + firstLines(serr, 4)})
		}
		if haveExe {
			issues = append(issues, Issue{"cyclic-artifact", "import cycle but an executable was produced"})
		}
		return issues
	}
	// acyclic
	if c.Exit != 0 || HasErrorDiagnostic(serr) {
		return append(issues, Issue{"dag-rejected", fmt.Sprintf("acyclic import graph rejected (exit %d): %s", c.Exit, firstLines(serr, 5))})
	}
	if strings.Contains(serr, "cannot advance module") {
		issues = append(issues, Issue{"dag-phase-error", "phase error on an acyclic graph: " + firstLines(serr, 3)})
	}
	if !haveExe {
		issues = append(issues, Issue{"dag-no-artifact", "exit 0 but no executable at the output path"})
	}
	for n := 0; n < g.N; n++ {
		_, have := c.File(ssaName(g.name(n)))
		if reach[n] && !have {
			issues = append(issues, Issue{"dag-module-missing", fmt.Sprintf("reachable module %s has no generated unit", g.name(n))})
		}
		if !reach[n] && have {
			issues = append(issues, Issue{"dag-module-extra", fmt.Sprintf("unreachable module %s was compiled", g.name(n))})
		}
	}
	// each module file read exactly once
	for n := 0; n < g.N; n++ {
		cnt := c.Sim.Probes["readfile:"+filepath.Join(ud, "proj", "p", g.name(n)+".fer")]
		if reach[n] && cnt != 1 {
			issues = append(issues, Issue{"dag-module-not-once", fmt.Sprintf("module %s was read %d times (expected exactly once)", g.name(n), cnt)})
		}
		if !reach[n] && cnt != 0 {
			issues = append(issues, Issue{"dag-module-extra", fmt.Sprintf("unreachable module %s was read", g.name(n))})
		}
	}
	if u.Tools == "real" && haveExe {
		want := fmt.Sprintf("%d\n", g.Value(0, map[int]int64{}))
		pr := core.RunProc(90*time.Second, ud, nil, nil, filepath.Join(ud, "out", "app"))
		if pr.TimedOut || pr.ExitCode != 0 || string(pr.Stdout) != want {
			issues = append(issues, Issue{"dag-wrong-output", fmt.Sprintf("program printed %q (exit %d), the import graph says %q", string(pr.Stdout), pr.ExitCode, want)})
		}
	}
	return issues
}

// ---------------------------------------------------------------- check

type C15Options struct {
	Tier string
	Seed uint64
}

func CheckC15(opt C15Options) int {
	t0 := time.Now()
	b, err := Prepare("c15", false)
	if err != nil {
		fmt.Fprintln(os.Stderr, "C15: build failed:", err)
		if b != nil {
			b.Close()
		}
		return 2
	}
	defer b.Close()
	fmt.Printf("C15: build ready in %.0fs\n", b.BuildSec)

	type item struct {
		g    *Graph
		unit Unit
	}
	var items []item
	kSmall, nLarge, kLarge, fine, realEvery := 32, 400, 4, 10, 6
	if opt.Tier == "thorough" {
		kSmall, nLarge, kLarge, fine, realEvery = 160, 4000, 8, 25, 8
	}
	mk := func(g *Graph, pl Plan, tools string) item {
		return item{g, Unit{Project: g.Project(), Backend: "native", Plan: pl, KeepGen: true, Tools: tools}}
	}
	for gi, g := range AllGraphs3() {
		// the canonical schedule with the real tool chain, then seeded ones
		items = append(items, mk(g, Canonical(), "real"))
		items = append(items, mk(g, Plan{Strategy: "lifo", MapMode: "reverse"}, "stub"))
		r := core.Sub(opt.Seed, "c15", "g3", gi)
		// a self import is refused while its own module is parsed, whatever the
		// schedule; the schedule budget goes to the graphs where the verdict
		// hinges on edges that arrive from different goroutines
		k := kSmall
		if g.ReachableSelfLoop() {
			k = kSmall / 8
		}
		for ; k > 0; k-- {
			items = append(items, mk(g, RandomPlan(r, fine), "stub"))
		}
	}
	for li := 0; li < nLarge; li++ {
		r := core.Sub(opt.Seed, "c15", "large", li)
		g := RandomGraph(r, 4+r.Intn(3))
		for k := 0; k < kLarge; k++ {
			tools := "stub"
			if k == 0 && li%realEvery == 0 {
				tools = "real"
			}
			items = append(items, mk(g, RandomPlan(r, fine), tools))
		}
	}

	rep, err := NewReporter("C15", opt.Seed, b)
	if err != nil {
		fmt.Fprintln(os.Stderr, "C15:", err)
		return 2
	}
	rep.Shrink.Project = false // the oracle is tied to the graph the project was rendered from

	// batches of consecutive items, one process each
	const batch = 12
	nb := (len(items) + batch - 1) / batch
	outs := make([]BatchOutcome, len(items))
	core.ParallelDo(nb, func(bi int) {
		lo, hi := bi*batch, (bi+1)*batch
		if hi > len(items) {
			hi = len(items)
		}
		units := make([]Unit, 0, hi-lo)
		for _, it := range items[lo:hi] {
			units = append(units, it.unit)
		}
		res := RunBatch(b, units, func(i int, rr *RunResult, k int) []Issue {
			return judgeC15Unit(items[lo+i].g, &units[i], rr, k)
		}, nil)
		for k, o := range res {
			outs[lo+k] = o
			if os.Getenv("VERIF_DEBUG") != "" {
				_, cyc := items[lo+k].g.Reachable()
				fmt.Printf("DEBUG %s cyclic=%v strat=%s seed=%d dec=%d trace=%s ran=%v issues=%v\n", items[lo+k].g, cyc, units[k].Plan.Strategy, units[k].Plan.Seed, o.Sim.Decisions, o.Sim.TraceHash, o.Ran, o.Issues)
			}
			if o.Trouble != "" {
				rep.NoteTrouble(fmt.Sprintf("graph %s: %s", items[lo+k].g, o.Trouble))
			}
			for _, is := range o.Issues {
				alone := One(units[k])
				hist := &Spec{}
				for _, pi := range o.Prefix {
					hist.Units = append(hist.Units, units[pi])
				}
				hist.Units = append(hist.Units, units[k])
				rep.Note(is, alone, hist, JudgeLast(UnitJudgeC15(items[lo+k].g)), items[lo+k].g)
			}
		}
	})
	exit := rep.Finish()

	// evidence
	sigs, traces := map[string]bool{}, map[string]bool{}
	var steps uint64
	var decisions, cyc, acyc, fineRuns, spawned, realRuns int
	graphsSeen := map[string]bool{}
	for i, o := range outs {
		gs := items[i].g.String()
		if o.Sim.ConflictSig != "" {
			sigs[gs+"|"+o.Sim.ConflictSig] = true
			traces[gs+"|"+o.Sim.TraceHash] = true
		}
		graphsSeen[gs] = true
		steps += o.Sim.Steps
		decisions += o.Sim.Decisions
		spawned += o.Sim.Spawned
		if _, c := items[i].g.Reachable(); c {
			cyc++
		} else {
			acyc++
		}
		if items[i].unit.Plan.Fine {
			fineRuns++
		}
		if items[i].unit.Tools == "real" {
			realRuns++
		}
	}
	wall := time.Since(t0).Seconds()
	var samples []any
	for _, i := range []int{0, len(items) / 3, len(items) - 1} {
		samples = append(samples, map[string]any{"graph": items[i].g.String(), "plan": items[i].unit.Plan, "files": items[i].unit.Project.Files, "issues": outs[i].Issues})
	}
	ev := &core.Evidence{
		PropertyID: "C15", Tier: opt.Tier, Seed: int64(opt.Seed), Level: "exploration",
		Coverage: map[string]any{
			"evaluations":         len(items),
			"distinct_nontrivial": len(sigs),
			"rule": "one evaluation = one simulated compile of a generated project under one seeded schedule and map order; " +
				"distinct_nontrivial counts distinct (import graph, conflict signature) pairs, the conflict signature being the hash of the " +
				"per-call-site order in which goroutines performed mutating synchronisation operations (lock, LoadOrStore, WaitGroup.Add, atomic add)",
			"samples":                         samples,
			"exhaustive_part":                 "all 512 directed graphs on {main,a,b} (self loops included), each under the canonical schedule plus seeded ones",
			"graphs_distinct":                 len(graphsSeen),
			"runs_cyclic_expected":            cyc,
			"runs_acyclic_expected":           acyc,
			"runs_linked_and_executed":        realRuns,
			"distinct_traces":                 len(traces),
			"scheduling_steps_simulated_time": steps,
			"scheduling_decisions":            decisions,
			"goroutines_spawned":              spawned,
			"fine_grained_runs":               fineRuns,
			"runs_per_hour":                   int(float64(len(items)) / wall * 3600),
			"build_seconds":                   b.BuildSec,
			"violation_classes":               rep.Classes(),
			"known_findings_hit":              rep.KnownHits,
			"fault_kinds":                     "none in C15 (schedules and map orders only; file-system and tool faults are C13's configuration)",
			"real_components":                 "lexer, parser, context, pipeline, all semantic phases, HIR/MIR, QBE code generator and embedded QBE; as, ld, runtime library and the linked executable in the runs counted by runs_linked_and_executed",
			"stubbed_components":              "Go scheduler (cooperative seeded scheduler), sync and sync/atomic (simulated), map iteration order (seeded permutation of a canonical order); as/ld replaced by a stand-in that only creates its output file in the other runs",
			"processes":                       nb,
		},
		Assumptions: []string{
			"the rewriter's seams (sync, atomic, go statements, map ranges) are the only sources of scheduling nondeterminism in phase 1; channel operations would be listed by the rewriter",
			"outside fine-grained runs, code between two synchronisation operations is treated as atomic (data-race freedom of phase 1)",
			"several units share one process; every issue is re-confirmed in a fresh process (alone, else with its history) before it is reported",
		},
		WallS: wall, Violations: rep.Violations,
	}
	if err := core.WriteEvidence(ev); err != nil {
		fmt.Fprintln(os.Stderr, "C15: evidence:", err)
		return 2
	}
	fmt.Printf("C15 %s: %d runs in %d processes, %d graphs, %d distinct conflict signatures, %d classes of issue, %.0fs\n", opt.Tier, len(items), nb, len(graphsSeen), len(sigs), len(rep.Classes()), wall)
	return exit
}
