package schedsim

import (
	"fmt"
	"strings"

	"verif/internal/core"
)

// GenProject draws a multi-module project whose modules contain what feeds
// schedule- or order-dependent naming and ordering in the compiler: function
// literals, anonymous and named struct / enum / interface types, several
// implementations of one interface, string literals, same-named types in two
// modules, warnings, and (per flavour) errors in several modules or an import cycle.
//
// flavour: "ok", "errors", "cycle".
func GenProject(r *core.Rng, flavour string) Project {
	n := r.Range(2, 6)
	p := Project{Dir: "q", Files: map[string]string{}, Entry: "main.fer"}
	// in some projects two modules have import paths that differ only in '/' vs '_'
	// (q/k_v and q/k/v): whatever is derived from the path must keep them apart the
	// same way in every compile
	clash := n >= 3 && r.Chance(1, 12)
	name := func(i int) string {
		if i == 0 {
			return "main"
		}
		if clash && i == 1 {
			return "k_v"
		}
		if clash && i == 2 {
			return "k/v"
		}
		return fmt.Sprintf("m%d", i)
	}
	// qual is the name an importer uses for module i (the last path element)
	qual := func(i int) string {
		nm := name(i)
		if k := strings.LastIndex(nm, "/"); k >= 0 {
			return nm[k+1:]
		}
		return nm
	}
	// DAG: i imports j > i
	imports := make([][]int, n)
	for i := 0; i < n; i++ {
		for j := i + 1; j < n; j++ {
			if r.Chance(1, 2) || (i == 0 && j == 1) {
				imports[i] = append(imports[i], j)
			}
		}
	}
	// make every module reachable from main
	for j := 1; j < n; j++ {
		reach := false
		for i := 0; i < j; i++ {
			for _, k := range imports[i] {
				if k == j {
					reach = true
				}
			}
		}
		if !reach {
			imports[r.Intn(j)] = append(imports[r.Intn(j)], j)
		}
	}
	for i := range imports {
		imports[i] = dedupe(imports[i])
	}
	cycleFrom, cycleTo := -1, -1
	if flavour == "cycle" && n >= 2 {
		// a back edge between two modules that main reaches through different imports when possible
		cycleFrom = r.Range(1, n-1)
		cycleTo = r.Intn(cycleFrom + 1)
		if cycleTo == cycleFrom && r.Chance(2, 3) {
			cycleTo = r.Intn(cycleFrom)
		}
	}
	// a module that does not exist, imported by two or more modules (which one is
	// asked to parse it first is a matter of scheduling)
	ghostMods := map[int]bool{}
	if flavour == "errors" && n >= 3 && r.Chance(1, 2) {
		for len(ghostMods) < 2+r.Intn(2) && len(ghostMods) < n {
			ghostMods[r.Intn(n)] = true
		}
	}
	// syntax errors in every module in a third of the error projects: many parser
	// goroutines append diagnostics at the same time
	syntaxEverywhere := flavour == "errors" && r.Chance(1, 3)
	ghostDistinct := r.Chance(1, 2)
	errMods := map[int]bool{}
	if flavour == "errors" {
		k := r.Range(1, n)
		for ; k > 0; k-- {
			errMods[r.Intn(n)] = true
		}
	}

	for i := 0; i < n; i++ {
		var b strings.Builder
		me := name(i)
		if i == 0 {
			b.WriteString("import \"std/io\";\n")
		} else if r.Chance(1, 3) {
			b.WriteString("import \"std/io\";\n")
		}
		for _, j := range imports[i] {
			if r.Chance(1, 4) {
				fmt.Fprintf(&b, "import \"q/%s\" as x%s;\n", name(j), qual(j))
			} else {
				fmt.Fprintf(&b, "import \"q/%s\";\n", name(j))
			}
		}
		if i == cycleFrom {
			fmt.Fprintf(&b, "import \"q/%s\";\n", name(cycleTo))
		}
		if ghostMods[i] {
			// the same missing module from several importers, or a different one each
			if ghostDistinct {
				fmt.Fprintf(&b, "import \"q/ghost%d\";\n", i)
			} else {
				b.WriteString("import \"q/ghost\";\n")
			}
		}
		b.WriteString("\n")
		ref := func(j int) string {
			// how module j is referred to in this file
			if strings.Contains(b.String(), fmt.Sprintf("import \"q/%s\" as x%s;", name(j), qual(j))) {
				return "x" + qual(j)
			}
			return qual(j)
		}
		var body []string // statements of Run()

		// same-named type in every module
		fmt.Fprintf(&b, "type Item struct {\n    .Id: i32,\n    .W: i32\n};\n\nfn MakeItem(k: i32) -> Item {\n    return { .Id = k, .W = %d } as Item;\n}\n\n", i+1)
		body = append(body, fmt.Sprintf("let it := MakeItem(%d);", r.Intn(50)), "acc = acc + it.Id + it.W;")

		// a same-named struct with a method in every imported module; main converts
		// values of several of them to a local interface (the lowering looks the
		// concrete type up by bare name across the import aliases)
		plain := flavour == "plain"
		if plain {
			// only what both back ends implement: structs, enums, loops, arrays, strings
		} else if i != 0 {
			fmt.Fprintf(&b, "type Box struct {\n    .V: i32\n};\n\nfn (bx: Box) size() -> i32 {\n    return bx.V + %d;\n}\n\nfn NewBox(v: i32) -> Box {\n    return { .V = v } as Box;\n}\n\n", 100*i)
		} else if len(imports[0]) >= 1 && r.Chance(3, 4) {
			b.WriteString("type Sized interface {\n    size() -> i32,\n};\n\n")
			for k, j := range imports[0] {
				if k >= 3 {
					break
				}
				body = append(body, fmt.Sprintf("let bx%d := %s::NewBox(%d);", j, ref(j), r.Intn(9)), fmt.Sprintf("let sz%d := bx%d as Sized;", j, j), fmt.Sprintf("acc = acc + sz%d.size();", j))
			}
		}
		// interface with several implementations (vtables, type ids)
		if !plain && r.Chance(2, 3) {
			k := r.Range(2, 4)
			fmt.Fprintf(&b, "type Shape%d interface {\n    area() -> i32,\n    name() -> str,\n};\n\n", i)
			for s := 0; s < k; s++ {
				tn := fmt.Sprintf("%s%d", []string{"Sq", "Rect", "Tri", "Circ"}[s], i)
				fmt.Fprintf(&b, "type %s struct {\n    .A: i32,\n    .B: i32\n};\n\nfn (v: %s) area() -> i32 {\n    return v.A * v.B + %d;\n}\n\nfn (v: %s) name() -> str {\n    return \"%s-%s\";\n}\n\n", tn, tn, s, tn, me, tn)
				fmt.Fprintf(&b, "fn New%s(a: i32, b: i32) -> Shape%d {\n    let v: %s = { .A = a, .B = b };\n    return v as Shape%d;\n}\n\n", tn, i, tn, i)
				body = append(body, fmt.Sprintf("let sh%d := New%s(%d, %d);", s, tn, r.Range(1, 9), r.Range(1, 9)), fmt.Sprintf("acc = acc + sh%d.area();", s))
			}
		}
		// closures
		nc := r.Intn(4)
		if plain {
			nc = 0
			body = append(body, fmt.Sprintf("let arr := [%d, %d, %d];", r.Intn(9), r.Intn(9), r.Intn(9)), "append(&'arr, 4);", "acc = acc + arr[3] + arr[0];",
				"let ix: i32 = 0;", "while ix < 3 {\n        acc = acc + ix;\n        ix += 1;\n    }")
		}
		for c := 0; c < nc; c++ {
			fmt.Fprintf(&b, "fn Clo%d_%d(n: i32) -> i32 {\n    let base: i32 = %d;\n    let f := fn(k: i32) -> i32 {\n        return k + n + base;\n    };\n", i, c, r.Intn(100))
			if r.Chance(1, 2) {
				b.WriteString("    let g := fn(k: i32) -> i32 {\n        let h := fn(z: i32) -> i32 {\n            return z * 2 + base;\n        };\n        return h(k) + 1;\n    };\n    return f(n) + g(n);\n}\n\n")
			} else {
				b.WriteString("    return f(n);\n}\n\n")
			}
			body = append(body, fmt.Sprintf("acc = acc + Clo%d_%d(%d);", i, c, r.Intn(20)))
		}
		// enum + match
		if r.Chance(1, 2) {
			fmt.Fprintf(&b, "type Mode%d enum {\n    Off,\n    Slow,\n    Fast\n};\n\nfn Speed%d(m: Mode%d) -> i32 {\n    match m {\n        Mode%d::Off => { return 0; }\n        Mode%d::Slow => { return %d; }\n        _ => { return %d; }\n    }\n}\n\n", i, i, i, i, i, r.Range(1, 9), r.Range(10, 99))
			body = append(body, fmt.Sprintf("acc = acc + Speed%d(Mode%d::%s);", i, i, core.Pick(r, []string{"Off", "Slow", "Fast"})))
		}
		// anonymous struct type
		if !plain && r.Chance(1, 2) {
			body = append(body, fmt.Sprintf("let an: struct { .P: i32, .Q: i32 } = { .P = %d, .Q = %d };", r.Intn(9), r.Intn(9)), "acc = acc + an.P - an.Q;")
		}
		// warning: constant condition
		if r.Chance(1, 3) {
			body = append(body, "if 1 == 1 {\n        acc = acc + 1;\n    }")
		}
		// string literals
		ns := r.Intn(3)
		for s := 0; s < ns; s++ {
			fmt.Fprintf(&b, "fn Label%d_%d() -> str {\n    return \"%s:%s:%d\";\n}\n\n", i, s, me, core.Pick(r, []string{"alpha", "beta", "gamma", "delta"}), s)
		}
		// language features whose analyses keep their own tables (narrowing of
		// optionals, borrows, map iteration, results, counted loops)
		if !plain {
			if r.Chance(1, 3) {
				fmt.Fprintf(&b, "fn Opt%d(a: i32?, b: i32?) -> i32 {\n    if a != none {\n        if b != none {\n            return a + b;\n        }\n        return a;\n    }\n    let z0: i32 = %d;\n    let d: i32 = b ?? z0;\n    return d;\n}\n\n", i, r.Intn(9))
				body = append(body, fmt.Sprintf("acc = acc + Opt%d(%d, none) + Opt%d(1, %d);", i, r.Intn(9), i, r.Intn(9)))
			}
			if r.Chance(1, 3) {
				fmt.Fprintf(&b, "fn Peek%d(r: &i32) -> i32 {\n    let v: i32 = r;\n    return v;\n}\n\nfn Ref%d() -> i32 {\n    let x: i32 = %d;\n    let y: i32 = %d;\n    let bx: Box = { .V = 1 };\n    let rx: &i32 = &x;\n    let ry: &i32 = &y;\n    let rb: &i32 = &bx.V;\n    let s: i32 = Peek%d(rx) + Peek%d(ry) + Peek%d(rb);\n    let m: &'i32 = &'y;\n    m = 9;\n    return s + y;\n}\n\n", i, i, r.Intn(9), r.Intn(9), i, i, i)
				body = append(body, fmt.Sprintf("acc = acc + Ref%d();", i))
			}
			if r.Chance(1, 3) {
				fmt.Fprintf(&b, "fn Tally%d() -> i32 {\n    let m := { \"a\" => %d, \"b\" => 2, \"c\" => 3 } as map[str]i32;\n    let t: i32 = 0;\n    for name, v in m {\n        t = t + v + len(name);\n    }\n    return t;\n}\n\n", i, r.Intn(9))
				body = append(body, fmt.Sprintf("acc = acc + Tally%d();", i))
			}
			if r.Chance(1, 3) {
				fmt.Fprintf(&b, "fn Div%d(a: i32, b: i32) -> str ! i32 {\n    if b == 0 {\n        return \"%s: division by zero\"!;\n    }\n    return a / b;\n}\n\nfn Res%d() -> i32 {\n    let q := Div%d(6, 3) catch -1;\n    let z := Div%d(6, 0) catch e {\n        let unused%d := e;\n    } -2;\n    return q + z;\n}\n\n", i, me, i, i, i, i)
				body = append(body, fmt.Sprintf("acc = acc + Res%d();", i))
			}
			if r.Chance(1, 3) {
				fmt.Fprintf(&b, "fn Meet%d(n: i32) -> i32 {\n    let i: i32 = 0;\n    let j: i32 = n;\n    let t: i32 = 0;\n    while i < j {\n        i++;\n        j--;\n        t = t + i * j;\n    }\n    return t;\n}\n\n", i)
				body = append(body, fmt.Sprintf("acc = acc + Meet%d(%d);", i, r.Range(2, 12)))
			}
		}
		// calls into the imports
		for _, j := range imports[i] {
			body = append(body, fmt.Sprintf("acc = acc + %s::Run();", ref(j)))
			if r.Chance(1, 2) {
				body = append(body, fmt.Sprintf("let other%d := %s::MakeItem(%d);", j, ref(j), r.Intn(9)), fmt.Sprintf("acc = acc + other%d.W;", j))
			}
		}
		if i == cycleFrom && cycleTo != cycleFrom {
			body = append(body, fmt.Sprintf("acc = acc + %s::Run();", qual(cycleTo)))
		}
		// a private helper in every module of the error flavour: using it from an
		// importer gives a diagnostic with labels in two files
		if flavour == "errors" {
			fmt.Fprintf(&b, "fn hidden%d(n: i32) -> i32 {\n    return n * 2;\n}\n\n", i)
		}
		if syntaxEverywhere {
			for e := r.Range(1, 3); e > 0; e-- {
				body = append(body, fmt.Sprintf("let everywhere%d := ;", e))
			}
		}
		// deliberate errors
		if errMods[i] {
			for e := r.Range(1, 3); e > 0; e-- {
				kind := r.Intn(18)
				if kind >= 4 && kind <= 6 && len(imports[i]) == 0 {
					kind = r.Intn(4)
				}
				switch kind {
				case 13: // flow analysis: two counters that both move away from the exit condition
					fmt.Fprintf(&b, "fn Spin%d_%d(n: i32) -> i32 {\n    let lo: i32 = 0;\n    let hi: i32 = n;\n    while lo < hi {\n        lo--;\n        hi++;\n    }\n    return lo + hi;\n}\n\n", i, e)
					body = append(body, fmt.Sprintf("acc = acc + Spin%d_%d(3);", i, e))
				case 14: // several branches without a return
					fmt.Fprintf(&b, "fn Fall%d_%d(a: i32) -> i32 {\n    let t: i32 = 0;\n    if a == 1 {\n        t = 1;\n    } else if a == 2 {\n        t = 2;\n    } else if a == 3 {\n        return 3;\n    } else {\n        t = 4;\n    }\n}\n\n", i, e)
					body = append(body, fmt.Sprintf("acc = acc + Fall%d_%d(2);", i, e))
				case 15: // borrow conflict
					fmt.Fprintf(&b, "fn Clash%d_%d() -> i32 {\n    let x: i32 = 1;\n    let y: i32 = 2;\n    let ry: &i32 = &y;\n    let m: &'i32 = &'x;\n    let r: &i32 = &x;\n    m = 2;\n    let v: i32 = r;\n    let w: i32 = ry;\n    return v + w;\n}\n\n", i, e)
					body = append(body, fmt.Sprintf("acc = acc + Clash%d_%d();", i, e))
				case 16: // loop without an exit
					fmt.Fprintf(&b, "fn Forever%d_%d(n: i32) -> i32 {\n    let t: i32 = n;\n    while true {\n        t = t + 1;\n    }\n    return t;\n}\n\n", i, e)
					body = append(body, fmt.Sprintf("acc = acc + Forever%d_%d(1);", i, e))
				case 17: // optional used without a check
					fmt.Fprintf(&b, "fn Raw%d_%d(a: i32?, b: i32?) -> i32 {\n    if a != none {\n        return a + b;\n    }\n    return 0;\n}\n\n", i, e)
					body = append(body, fmt.Sprintf("acc = acc + Raw%d_%d(1, 2);", i, e))
				case 9: // too many arguments
					body = append(body, fmt.Sprintf("let many%d := MakeItem(1, 2, %d);", e, e))
				case 10: // too few arguments
					body = append(body, fmt.Sprintf("let few%d := MakeItem();", e))
				case 11: // unknown field
					body = append(body, fmt.Sprintf("acc = acc + it.Nope%d;", e))
				case 12: // argument of the wrong kind
					body = append(body, fmt.Sprintf("let odd%d := MakeItem(\"text\");", e))
				case 7: // syntax error: reported by the goroutine that parses this module
					body = append(body, fmt.Sprintf("let broken%d := ;", e))
				case 8:
					body = append(body, fmt.Sprintf("acc = acc + * %d;", e))
				case 4: // private symbol of an imported module (labels in two files)
					j := core.Pick(r, imports[i])
					body = append(body, fmt.Sprintf("acc = acc + %s::hidden%d(%d);", ref(j), j, e))
				case 5: // same-named type of another module used where the local one is expected
					j := core.Pick(r, imports[i])
					body = append(body, fmt.Sprintf("let mixed%d: Item = %s::MakeItem(%d);", e, ref(j), e))
				case 6: // unknown symbol of an imported module
					j := core.Pick(r, imports[i])
					body = append(body, fmt.Sprintf("acc = acc + %s::NoSuch%d();", ref(j), e))
				case 0:
					body = append(body, fmt.Sprintf("let bad%d: i32 = \"text\";", e))
				case 1:
					body = append(body, fmt.Sprintf("acc = acc + missing%d;", e))
				case 2:
					body = append(body, fmt.Sprintf("let flag%d: bool = acc;", e))
				default:
					body = append(body, fmt.Sprintf("acc = undefinedFn%d(acc);", e))
				}
			}
		}
		b.WriteString("fn Run() -> i32 {\n    let acc: i32 = 0;\n")
		for _, st := range body {
			b.WriteString("    " + st + "\n")
		}
		b.WriteString("    return acc;\n}\n")
		if i == 0 {
			b.WriteString("\nfn main() {\n    io::Println(Run());\n")
			for s := 0; s < ns; s++ {
				fmt.Fprintf(&b, "    io::Println(Label0_%d());\n", s)
			}
			b.WriteString("}\n")
		}
		p.Files[me+".fer"] = b.String()
	}
	return p
}

func dedupe(xs []int) []int {
	seen := map[int]bool{}
	var out []int
	for _, x := range xs {
		if !seen[x] {
			seen[x] = true
			out = append(out, x)
		}
	}
	// keep ascending order
	for i := 0; i < len(out); i++ {
		for j := i + 1; j < len(out); j++ {
			if out[j] < out[i] {
				out[i], out[j] = out[j], out[i]
			}
		}
	}
	return out
}
