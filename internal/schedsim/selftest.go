package schedsim

import (
	"encoding/json"
	"fmt"
	"os"
	"path/filepath"
	"strings"
	"time"
	"unicode/utf8"

	"verif/internal/core"
)

// SelfTest proves the two things everything else rests on:
//  1. determinism: the same spec gives the same event log (choice tape, trace
//     hash, conflict signature, map-order statistics, fault decisions) and the
//     same observables in separate processes under GOMAXPROCS 1, 4 and 16;
//  2. rewriter fidelity: under the canonical plan the simulated compiler
//     prints the same diagnostics and generates the same IL / wasm as the
//     unrewritten compiler built from the same tree.
//
// Any difference is harness trouble (exit 2), never a violation.
func SelfTest(seed uint64, nSpecs int) int {
	t0 := time.Now()
	b, err := Prepare("selftest", true)
	if err != nil {
		fmt.Fprintln(os.Stderr, "selftest: build failed:", err)
		if b != nil {
			b.Close()
		}
		return 2
	}
	defer b.Close()
	corpus := LoadCorpus()
	type caseT struct {
		spec *Spec
		desc string
	}
	var cases []caseT
	for i := 0; i < nSpecs; i++ {
		r := core.Sub(seed, "selftest", i)
		var u Unit
		switch i % 4 {
		case 0:
			g := RandomGraph(r, 3+r.Intn(3))
			u = Unit{Project: g.Project(), Backend: "native", KeepGen: true, Tools: "stub"}
		case 1:
			u = Unit{Project: GenProject(r, core.Pick(r, []string{"ok", "errors", "cycle"})), Backend: core.Pick(r, []string{"native", "wasm"}), KeepGen: true, Tools: "stub"}
		case 2:
			p, _ := GenC13Project(r, corpus)
			u = Unit{Project: p, Backend: "native", KeepGen: true, Tools: "stub"}
		default:
			p, _ := GenC13Project(r, corpus)
			u = Unit{Project: p, Backend: "native", KeepGen: false, Tools: "stub"}
		}
		u.Plan = RandomPlan(r, 30)
		if i%4 == 3 {
			u.Plan.Faults = []Fault{{Kind: core.Pick(r, []string{"readfile", "stat", "mkdirall", "writefile", "exec"}), Ordinal: r.Intn(4), Mode: core.Pick(r, []string{"eio", "enoent", "enospc", "exit1"})}}
		}
		// a history of two units in half of the cases
		spec := One(u)
		if i%2 == 1 {
			u2 := cloneUnit(&u)
			u2.Plan = RandomPlan(r, 30)
			spec.Units = append(spec.Units, u2)
		}
		cases = append(cases, caseT{spec, fmt.Sprintf("case %d", i)})
	}
	type digest struct {
		s string
	}
	runOnce := func(spec *Spec, procs int) string {
		saved := childEnv
		env := append([]string{}, os.Environ()...)
		env = append(env, fmt.Sprintf("GOMAXPROCS=%d", procs), "AS=", "LD=", "FERRET_TOOLCHAIN_PATH=")
		rr := b.execEnv(spec, b.Sim, env)
		_ = saved
		defer rr.Cleanup()
		var sb strings.Builder
		fmt.Fprintf(&sb, "proc_exit=%d signal=%s n=%d\n", rr.ProcExit, rr.ProcSignal, len(rr.Results))
		for i, c := range rr.Results {
			ud := rr.UnitDir(i)
			st := c.Sim
			tape, _ := json.Marshal(st.Tape)
			sites, _ := json.Marshal(st.MapSitesSeen)
			fsites, _ := json.Marshal(st.FaultSites)
			fmt.Fprintf(&sb, "unit %d exit=%d done=%v steps=%d decisions=%d trace=%s sig=%s ycalls=%d mapcalls=%d perm=%d ties=%d live=%d\n tape=%s\n sites=%s\n faultsites=%s fired=%v\n crash=%q deadlock=%q hang=%q races=%v\n",
				i, c.Exit, c.Done, st.Steps, st.Decisions, st.TraceHash, st.ConflictSig, st.YCalls, st.MapCalls, st.MapPermuted, st.MapTies, st.LiveAtEnd,
				tape, sites, fsites, strings.ReplaceAll(fmt.Sprint(st.FaultsFired), ud, "<RUN>"), st.Crash, st.Deadlock, st.Hang, st.Races)
			fmt.Fprintf(&sb, " stderr=%q\n stdout=%q\n", Normalise(c.Stderr, ud), Normalise(c.Stdout, ud))
			for _, f := range c.Files {
				if strings.HasSuffix(f.Name, ".o") {
					continue
				}
				fmt.Fprintf(&sb, " file %s %d %s\n", f.Name, f.Size, f.Sha)
			}
		}
		return sb.String()
	}
	bad := 0
	ties := 0
	results := make([][3]string, len(cases))
	core.ParallelDo(len(cases), func(i int) {
		for k, p := range []int{1, 4, 16} {
			results[i][k] = runOnce(cases[i].spec, p)
		}
	})
	for i := range cases {
		if strings.Contains(results[i][0], "ties=") && !strings.Contains(results[i][0], "ties=0 ") {
			ties++
		}
		if results[i][0] != results[i][1] || results[i][0] != results[i][2] {
			bad++
			if bad <= 3 {
				fmt.Fprintf(os.Stderr, "selftest: NONDETERMINISTIC SIMULATION in %s:\n%s\n", cases[i].desc, firstDiff(results[i][0], pick(results[i][1], results[i][2], results[i][0])))
				data, _ := json.MarshalIndent(cases[i].spec, "", " ")
				os.WriteFile(filepath.Join(core.VerifDir(), "replays", fmt.Sprintf("selftest-nondeterminism-%d.json", i)), data, 0644)
			}
		}
	}
	fmt.Printf("selftest determinism: %d specs x 3 processes (GOMAXPROCS 1/4/16): %d divergent, %d with canonicaliser ties\n", len(cases), bad, ties)

	// fidelity: canonical simulated run vs the unrewritten compiler
	fid, fidBad := 0, 0
	for i := 0; i < len(cases) && fid < nSpecs/2; i++ {
		u := cloneUnit(&cases[i].spec.Units[0])
		if len(u.Plan.Faults) > 0 {
			continue
		}
		u.Plan = Canonical()
		u.Tools = "stub"
		fid++
		sim := b.Exec(One(u))
		if len(sim.Results) != 1 || !sim.Results[0].Done {
			sim.Cleanup()
			continue // crashes of the compiler are C13's business, and identical by construction
		}
		so := observe(sim, 0)
		// plain compiler
		pd := b.NewRunDir()
		projDir, _ := u.Project.Materialise(filepath.Join(pd, "u0", "proj"))
		outDir := filepath.Join(pd, "u0", "out")
		args := []string{}
		if u.KeepGen {
			args = append(args, "-keep-gen")
		}
		if u.Backend == "wasm" {
			args = append(args, "-target", "wasm")
		}
		args = append(args, "-o", filepath.Join(outDir, "app"), filepath.Join(projDir, u.Project.Entry))
		env := append(os.Environ(), "FERRET_LIBS_PATH="+b.Libs, "FERRET_AS="+b.Stub, "FERRET_LD="+b.Stub, "AS=", "LD=")
		pr := core.RunProc(60*time.Second, filepath.Join(pd, "u0"), env, nil, b.Plain, args...)
		// the simulated run's output travels through JSON (which replaces every invalid UTF-8 byte by U+FFFD) before colour codes are stripped: do the same here, in the same order
		// the simulated harness keeps at most 1 MiB of each stream (readCap in zsim_harness.go)
		capped := func(b []byte) string {
			if len(b) > 1<<20 {
				b = b[:1<<20]
			}
			return string(b)
		}
		po := Observable{Exit: pr.ExitCode, Stdout: Normalise(jsonValid(capped(pr.Stdout)), filepath.Join(pd, "u0")),
			Stderr: Normalise(jsonValid(capped(pr.Stderr)), filepath.Join(pd, "u0")), Files: map[string]string{}}
		filepath.Walk(outDir, func(p string, info os.FileInfo, err error) error {
			if err != nil || info.IsDir() {
				return nil
			}
			if strings.HasSuffix(p, ".ssa") || strings.HasSuffix(p, ".wasm") {
				rel, _ := filepath.Rel(filepath.Join(pd, "u0"), p)
				data, _ := os.ReadFile(p)
				po.Files[filepath.ToSlash(rel)] = shaHex(data)
			}
			return nil
		})
		diffs := compareObs(po, so, func(n string) []byte { d, _ := os.ReadFile(filepath.Join(pd, "u0", n)); return d }, func(n string) []byte { d, _ := sim.SnapFile(0, n); return d })
		// the plain compiler prints a crash as a Go trace and exits 2; the harness reports it as a crash: skip
		if pr.ExitCode == 2 && strings.Contains(string(pr.Stderr), "goroutine ") {
			diffs = nil
		}
		if len(diffs) > 0 {
			if os.Getenv("VERIF_DEBUG") != "" {
				os.WriteFile(fmt.Sprintf("/var/tmp/mut/fid-%d-plain.txt", i), []byte(po.Stderr), 0644)
				os.WriteFile(fmt.Sprintf("/var/tmp/mut/fid-%d-sim.txt", i), []byte(so.Stderr), 0644)
			}
			fidBad++
			if fidBad <= 3 {
				fmt.Fprintf(os.Stderr, "selftest: REWRITER CHANGES BEHAVIOUR in case %d: %v\n", i, diffs)
			}
		}
		sim.Cleanup()
		os.RemoveAll(pd)
	}
	fmt.Printf("selftest fidelity: %d projects, canonical simulated run vs unrewritten compiler: %d differ\n", fid, fidBad)
	// assumption audit (never a verdict): coarse mode treats code between two
	// synchronisation operations as atomic, i.e. assumes phase 1 is data-race
	// free. Build the UNREWRITTEN compiler with the race detector and compile a
	// batch of multi-module projects under the real scheduler.
	raceBin := filepath.Join(b.S.Dir, "ferret-race")
	plainSrc := filepath.Join(b.S.Dir, "plain")
	if out, err := core.Run(plainSrc, core.GoEnv(), 20*time.Minute, "go", "build", "-race", "-o", raceBin, "."); err != nil {
		fmt.Printf("selftest race audit: skipped (race build failed: %v %s)\n", err, firstLines(out, 2))
	} else {
		races, runs := 0, 0
		for i := 0; i < 30; i++ {
			r := core.Sub(seed, "selftest", "race", i)
			proj := GenProject(r, core.Pick(r, []string{"ok", "errors", "cycle"}))
			pd := b.NewRunDir()
			projDir, _ := proj.Materialise(filepath.Join(pd, "proj"))
			env := append(os.Environ(), "FERRET_LIBS_PATH="+b.Libs, "FERRET_AS="+b.Stub, "FERRET_LD="+b.Stub, "AS=", "LD=", fmt.Sprintf("GOMAXPROCS=%d", []int{2, 4, 16}[i%3]), "GORACE=halt_on_error=0")
			pr := core.RunProc(120*time.Second, pd, env, nil, raceBin, "-o", filepath.Join(pd, "out", "app"), filepath.Join(projDir, proj.Entry))
			runs++
			if strings.Contains(string(pr.Stderr), "WARNING: DATA RACE") {
				races++
				if races == 1 {
					fmt.Printf("ASSUMPTION-BROKEN: the race detector reports a data race in the unrewritten compiler:\n%s\n", firstLines(string(pr.Stderr), 30))
				}
			}
			os.RemoveAll(pd)
		}
		fmt.Printf("selftest race audit: %d real-scheduler compiles of multi-module projects with -race: %d reported a data race\n", runs, races)
	}
	fmt.Printf("selftest: %.0fs\n", time.Since(t0).Seconds())
	if bad > 0 || fidBad > 0 {
		return 2
	}
	return 0
}

// jsonValid replaces every invalid UTF-8 byte by U+FFFD, one for one, as encoding/json does.
func jsonValid(s string) string {
	var b strings.Builder
	for i := 0; i < len(s); {
		r, n := utf8.DecodeRuneInString(s[i:])
		if r == utf8.RuneError && n == 1 {
			b.WriteRune(utf8.RuneError)
		} else {
			b.WriteString(s[i : i+n])
		}
		i += n
	}
	return b.String()
}

func pick(a, b, ref string) string {
	if a != ref {
		return a
	}
	return b
}
