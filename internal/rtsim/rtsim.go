// Package rtsim is engine B of DESIGN.md: the Ferret runtime's containers
// (map.c, array.c, optional.c, len.c, append.c, compiled from /repo/runtime as
// shipped) run under a simulated allocator and ASan/UBSan; seeded operation
// histories are checked operation by operation against a dict / list model.
package rtsim

import (
	"encoding/hex"
	"encoding/json"
	"fmt"
	"os"
	"path/filepath"
	"regexp"
	"sort"
	"strconv"
	"strings"
	"time"

	"verif/internal/core"
)

// ---------------------------------------------------------------- build

type Build struct {
	S      *core.Scratch
	Driver string
	Sec    float64
}

var runtimeFiles = []string{"core/map.c", "core/array.c", "core/optional.c", "libs/len.c", "libs/append.c", "core/string_runtime.c"}

func Prepare() (*Build, error) {
	t0 := time.Now()
	s, err := core.NewScratch("c17")
	if err != nil {
		return nil, err
	}
	b := &Build{S: s}
	rt := filepath.Join(core.RepoDir, "runtime")
	env := os.Environ()
	var objs []string
	cflags := []string{"-std=c99", "-g", "-O1", "-fsanitize=address,undefined", "-fno-sanitize-recover=all", "-fno-omit-frame-pointer",
		"-Dmalloc=sim_malloc", "-Dcalloc=sim_calloc", "-Drealloc=sim_realloc", "-Dfree=sim_free",
		"-I" + filepath.Join(rt, "core"), "-I" + filepath.Join(rt, "libs")}
	for _, f := range runtimeFiles {
		obj := filepath.Join(s.Dir, strings.TrimSuffix(filepath.Base(f), ".c")+".o")
		args := append(append([]string{}, cflags...), "-c", filepath.Join(rt, f), "-o", obj)
		if out, err := core.Run(s.Dir, env, 5*time.Minute, "clang", args...); err != nil {
			return b, fmt.Errorf("compile %s: %v\n%s", f, err, out)
		}
		objs = append(objs, obj)
	}
	drv := filepath.Join(s.Dir, "driver.o")
	if out, err := core.Run(s.Dir, env, 5*time.Minute, "clang", "-std=gnu99", "-g", "-O1", "-fsanitize=address,undefined", "-fno-sanitize-recover=all",
		"-I"+filepath.Join(rt, "core"), "-c", filepath.Join(core.VerifDir(), "rtsim", "driver.c"), "-o", drv); err != nil {
		return b, fmt.Errorf("compile driver: %v\n%s", err, out)
	}
	b.Driver = filepath.Join(s.Dir, "rtdriver")
	args := append([]string{"-fsanitize=address,undefined"}, append(objs, drv, "-o", b.Driver)...)
	if out, err := core.Run(s.Dir, env, 5*time.Minute, "clang", args...); err != nil {
		return b, fmt.Errorf("link driver: %v\n%s", err, out)
	}
	b.Sec = time.Since(t0).Seconds()
	return b, nil
}

func (b *Build) Close() { b.S.Remove() }

// ---------------------------------------------------------------- histories

// Op is one script line.
type Op struct {
	Name string   `json:"op"`
	Args []string `json:"args"`
}

func (o Op) String() string { return strings.TrimSpace(o.Name + " " + strings.Join(o.Args, " ")) }

// History is one generated operation history with its allocator configuration.
type History struct {
	ID     int    `json:"id"`
	Config string `json:"config"` // the C line
	Ops    []Op   `json:"ops"`
	Faulty bool   `json:"faulty"`
}

func (h *History) Script() string {
	var b strings.Builder
	fmt.Fprintf(&b, "H %d\n%s\n", h.ID, h.Config)
	for _, o := range h.Ops {
		b.WriteString(o.String())
		b.WriteString("\n")
	}
	return b.String()
}

type genMap struct {
	kind   string
	ks, vs int
	keys   []string
}

type genArr struct {
	es  int
	len int
}

// Generate draws one history.
func Generate(r *core.Rng, id int, maxOps int, faulty bool) *History {
	h := &History{ID: id, Faulty: faulty}
	h.Config = fmt.Sprintf("C fill=%s realloc=%s zero=%s cap=%d",
		core.Pick(r, []string{"00", "a5", "a5", "ff"}),
		core.Pick(r, []string{"move", "move", "native"}),
		core.Pick(r, []string{"unique", "unique", "null"}),
		core.Pick(r, []int{1 << 26, 1 << 26, 1 << 20, 1 << 16}))
	nops := r.Range(5, maxOps)
	var uniq uint32
	val := func(n int) string {
		if n == 0 {
			return "-"
		}
		uniq++
		b := make([]byte, n)
		x := uniq*2654435761 + 12345
		for i := range b {
			if i < 4 {
				b[i] = byte(uniq >> (8 * uint(i)))
			} else {
				x = x*1664525 + 1013904223
				b[i] = byte(x >> 24)
			}
		}
		return hex.EncodeToString(b)
	}
	maps := map[int]*genMap{}
	arrs := map[int]*genArr{}
	mode := r.Intn(4) // 0 maps, 1 arrays, 2 mixed, 3 one big map (crosses several rehashes)
	emit := func(name string, args ...string) { h.Ops = append(h.Ops, Op{name, args}) }
	maybeFault := func() {
		if faulty && r.Chance(1, 4) {
			emit("F", strconv.Itoa(r.Range(1, 4)))
		}
	}
	newMap := func(hn int, viaPairs bool) {
		m := &genMap{}
		m.kind = core.Pick(r, []string{"i32", "i64", "str", "bytes"})
		switch m.kind {
		case "i32":
			m.ks = 4
		case "i64", "str":
			m.ks = 8
		default:
			m.ks = r.Range(1, 40)
		}
		m.vs = core.Pick(r, []int{0, 1, 2, 4, 4, 8, 8, 12, 16, 24, 33, 64})
		pool := core.Pick(r, []int{3, 6, 14, 30, 70})
		if mode == 3 {
			pool = core.Pick(r, []int{30, 70, 120})
		}
		seen := map[string]bool{}
		for tries := 0; len(m.keys) < pool && tries < 50*pool; tries++ {
			var k string
			switch m.kind {
			case "i32":
				k = strconv.Itoa(int(int32(r.Uint64())) % core.Pick(r, []int{2 * pool, 1000, 1 << 30}))
			case "i64":
				k = strconv.FormatInt(int64(r.Uint64())%int64(core.Pick(r, []int{2 * pool, 100000, 1 << 40})), 10)
				if len(m.keys) > 0 && r.Chance(1, 3) {
					// same low 32 bits as an earlier key, different high bits (and the
					// other way round): distinct keys that a 4-byte hash or compare confuses
					base, _ := strconv.ParseInt(core.Pick(r, m.keys), 10, 64)
					if r.Chance(1, 2) {
						k = strconv.FormatInt(base+int64(1+r.Intn(5))<<32, 10)
					} else {
						k = strconv.FormatInt(base^int64(1+r.Intn(7)), 10)
					}
				}
			case "str":
				k = fmt.Sprintf("%s%d", core.Pick(r, []string{"k", "key_", "a", "Zz", "x-"}), r.Intn(10*pool))
			default:
				b := make([]byte, m.ks)
				for i := range b {
					b[i] = byte(r.Intn(4)) // few distinct byte values: near-collisions
				}
				if m.ks > 2 {
					b[m.ks-1] = byte(r.Intn(256))
				}
				if len(m.keys) > 0 && r.Chance(1, 3) {
					// differs from an earlier key in exactly one byte, often beyond the
					// 8th or 16th (a truncated compare or hash makes them alias)
					prev, _ := hex.DecodeString(core.Pick(r, m.keys))
					copy(b, prev)
					pos := r.Intn(m.ks)
					if m.ks > 8 && r.Chance(1, 2) {
						pos = 8 + r.Intn(m.ks-8)
					}
					b[pos] ^= byte(1 + r.Intn(255))
				}
				k = hex.EncodeToString(b)
			}
			if !seen[k] {
				seen[k] = true
				m.keys = append(m.keys, k)
			}
		}
		maps[hn] = m
		if viaPairs {
			n := r.Intn(len(m.keys) + 4)
			args := []string{strconv.Itoa(hn), m.kind, strconv.Itoa(m.ks), strconv.Itoa(m.vs), strconv.Itoa(n)}
			for i := 0; i < n; i++ {
				args = append(args, core.Pick(r, m.keys), val(m.vs))
			}
			if faulty && r.Chance(1, 3) {
				// anywhere in the 3 allocations per inserted pair (plus table and rehash)
				emit("F", strconv.Itoa(r.Range(1, 3*n+4)))
			}
			emit("mfrom", args...)
		} else {
			maybeFault()
			emit("mnew", strconv.Itoa(hn), m.kind, strconv.Itoa(m.ks), strconv.Itoa(m.vs))
		}
	}
	checkMap := func(hn int) {
		emit("msize", strconv.Itoa(hn))
		emit("miter", strconv.Itoa(hn))
	}
	for len(h.Ops) < nops {
		useMap := mode == 0 || mode == 3 || (mode == 2 && r.Chance(1, 2))
		if useMap {
			hn := r.Intn(3)
			if mode == 3 {
				hn = 0
			}
			m := maps[hn]
			if m == nil {
				newMap(hn, r.Chance(1, 3))
				continue
			}
			hs := strconv.Itoa(hn)
			k := core.Pick(r, m.keys)
			switch x := r.Intn(100); {
			case x < 45:
				maybeFault()
				emit("mset", hs, k, val(m.vs))
				if r.Chance(1, 3) || (len(h.Ops) > 0 && faulty) {
					checkMap(hn)
				}
			case x < 60:
				emit("mget", hs, k)
			case x < 70:
				emit("mopt", hs, k, val(m.vs))
			case x < 78:
				emit("mhas", hs, k)
			case x < 84:
				emit("msize", hs)
			case x < 88:
				emit("mlen", hs)
			case x < 94:
				emit("miter", hs)
			case x < 97:
				if r.Chance(1, 2) {
					emit("mfree", hs)
				}
				emit("mdestroy", hs)
				delete(maps, hn)
			default:
				newMap(hn, r.Chance(1, 2))
			}
		} else {
			hn := 3 + r.Intn(2)
			a := arrs[hn]
			hs := strconv.Itoa(hn)
			if a == nil {
				a = &genArr{es: core.Pick(r, []int{1, 2, 4, 4, 8, 8, 12, 16, 24, 40})}
				arrs[hn] = a
				maybeFault()
				emit("anew", hs, strconv.Itoa(a.es), strconv.Itoa(core.Pick(r, []int{0, 0, 1, 4, 5, 16, -3})))
				continue
			}
			idx := func() string {
				switch r.Intn(8) {
				case 0:
					return "-1"
				case 1:
					return strconv.Itoa(a.len)
				case 2:
					return strconv.Itoa(a.len + 1 + r.Intn(100))
				case 3:
					return "2147483647"
				case 4:
					return "-2147483648"
				case 5:
					return strconv.Itoa(-a.len)
				default:
					if a.len == 0 {
						return "0"
					}
					return strconv.Itoa(r.Intn(a.len))
				}
			}
			switch x := r.Intn(100); {
			case x < 50:
				maybeFault()
				emit(core.Pick(r, []string{"aapp", "aapp", "aappw"}), hs, val(a.es))
				a.len++ // upper bound; the checker follows the real outcome
				if faulty {
					emit("alen", hs)
				}
			case x < 65:
				emit("aget", hs, idx())
			case x < 75:
				emit("aset", hs, idx(), val(a.es))
			case x < 82:
				emit(core.Pick(r, []string{"alen", "alenw"}), hs)
			case x < 86:
				emit("acap", hs)
			case x < 92:
				maybeFault()
				emit("ares", hs, strconv.Itoa(core.Pick(r, []int{0, 1, a.len, a.len + 1, 2 * a.len, 100, 1000, -1})))
			case x < 96:
				if r.Chance(1, 2) {
					emit("afree", hs)
				}
				emit("adestroy", hs)
				delete(arrs, hn)
			default:
				// read everything back
				for i := 0; i < a.len && i < 80; i++ {
					emit("aget", hs, strconv.Itoa(i))
				}
			}
		}
	}
	// final read-back of every live container
	for _, hn := range []int{0, 1, 2} {
		if m := maps[hn]; m != nil {
			checkMap(hn)
			for i, k := range m.keys {
				if i > 40 {
					break
				}
				emit("mget", strconv.Itoa(hn), k)
			}
		}
	}
	for _, hn := range []int{3, 4} {
		if a := arrs[hn]; a != nil {
			emit("alen", strconv.Itoa(hn))
			for i := 0; i < a.len && i < 80; i++ {
				emit("aget", strconv.Itoa(hn), strconv.Itoa(i))
			}
		}
	}
	return h
}

// ---------------------------------------------------------------- model and checker

type Issue struct {
	Class  string `json:"class"`
	Detail string `json:"detail"`
}

type mapModel struct {
	live    bool
	freed   bool
	kind    string
	ks, vs  int
	entries map[string]string
	maxSize int
}

type arrModel struct {
	live  bool
	freed bool
	es    int
	elems []string
}

// Probes collected while checking.
type Probes struct {
	Ops, FaultsArmed, FaultsFired, FailuresAfterFault, SuccessDespiteFault int
	Rehash12, Rehash24, Rehash48                                           int
	ArrGrow4, ArrGrow16, ArrGrow64                                         int
	UpdatesOfExisting, Misses, OutOfRange                                  int
	FiredByOp                                                              map[string]int
}

var lineRe = regexp.MustCompile(`^(\d+) (.*?)(?: F=([01]))? A=(\d+)$`)

// Check compares the driver's output for one history with the model. lines are
// the output lines belonging to the history (after its "H" line), in order.
func Check(h *History, lines []string, pr *Probes) []Issue {
	var issues []Issue
	add := func(cls, format string, a ...any) {
		issues = append(issues, Issue{cls, fmt.Sprintf(format, a...)})
	}
	maps := map[string]*mapModel{}
	arrs := map[string]*arrModel{}
	li := 0
	armed := false
	for oi, op := range h.Ops {
		if op.Name == "F" {
			armed = true
			continue
		}
		if li >= len(lines) {
			break // process ended (reported by the caller)
		}
		m := lineRe.FindStringSubmatch(lines[li])
		li++
		if m == nil {
			add("harness:unparsable-output", "op %d %q: output %q", oi, op, lines[li-1])
			return issues
		}
		out := m[2]
		fired := m[3] == "1"
		wasArmed := armed
		armed = false
		pr.Ops++
		if wasArmed {
			pr.FaultsArmed++
			if fired {
				pr.FaultsFired++
				if pr.FiredByOp == nil {
					pr.FiredByOp = map[string]int{}
				}
				pr.FiredByOp[op.Name]++
			}
		}
		where := fmt.Sprintf("op %d `%s`", oi, trunc(op.String(), 90))
		mayFail := wasArmed && fired
		hn := ""
		if len(op.Args) > 0 {
			hn = op.Args[0]
		}
		switch op.Name {
		case "mnew", "mfrom":
			ks, _ := strconv.Atoi(op.Args[2])
			vs, _ := strconv.Atoi(op.Args[3])
			mm := &mapModel{kind: op.Args[1], ks: ks, vs: vs, entries: map[string]string{}}
			maps[hn] = mm
			switch out {
			case "ok":
				mm.live = true
				if op.Name == "mfrom" {
					n, _ := strconv.Atoi(op.Args[4])
					for i := 0; i < n; i++ {
						mm.entries[op.Args[5+2*i]] = op.Args[6+2*i]
					}
					mm.note(pr)
				}
				if mayFail {
					pr.SuccessDespiteFault++
				}
			case "null":
				if !mayFail {
					add("unexpected-failure:"+op.Name, "%s returned NULL although no allocation failure was injected", where)
				} else {
					pr.FailuresAfterFault++
				}
			default:
				add("harness:unparsable-output", "%s: %q", where, out)
			}
		case "mset":
			mm := maps[hn]
			switch out {
			case "1":
				if mm == nil || !mm.live {
					add("wrong-result:mset-on-null", "%s succeeded on a map that does not exist", where)
					break
				}
				if _, ok := mm.entries[op.Args[1]]; ok {
					pr.UpdatesOfExisting++
				}
				mm.entries[op.Args[1]] = op.Args[2]
				mm.note(pr)
				if mayFail {
					pr.SuccessDespiteFault++
				}
			case "0":
				if mm != nil && mm.live && !mayFail {
					add("unexpected-failure:mset", "%s reported failure although no allocation failure was injected (key_size %d, value_size %d)", where, mm.ks, mm.vs)
				} else if mayFail {
					pr.FailuresAfterFault++
				}
			default:
				add("harness:unparsable-output", "%s: %q", where, out)
			}
		case "mget":
			mm := maps[hn]
			want := "none"
			if mm != nil && mm.live {
				if v, ok := mm.entries[op.Args[1]]; ok {
					want = v
				} else {
					pr.Misses++
				}
			}
			if out != want {
				add("wrong-result:mget", "%s returned %s, the model says %s", where, out, want)
			}
		case "mopt":
			mm := maps[hn]
			var want string
			switch {
			case mm == nil || !mm.live:
				want = "0 x nomap"
			default:
				if v, ok := mm.entries[op.Args[1]]; ok {
					want = "1 " + v + " " + v
				} else {
					want = "0 x " + op.Args[2]
				}
			}
			if out != want {
				add("wrong-result:mopt", "%s returned %q, the model says %q", where, out, want)
			}
		case "mhas":
			mm := maps[hn]
			want := "0"
			if mm != nil && mm.live {
				if _, ok := mm.entries[op.Args[1]]; ok {
					want = "1"
				}
			}
			if out != want {
				add("wrong-result:mhas", "%s returned %s, the model says %s", where, out, want)
			}
		case "msize", "mlen":
			mm := maps[hn]
			want := 0
			if mm != nil && mm.live {
				want = len(mm.entries)
			}
			if out != strconv.Itoa(want) {
				add("wrong-result:"+op.Name, "%s returned %s, the model has %d distinct keys", where, out, want)
			}
		case "miter":
			mm := maps[hn]
			want := map[string]string{}
			if mm != nil && mm.live {
				want = mm.entries
			}
			fs := strings.Fields(out)
			got := map[string]int{}
			bad := ""
			for _, f := range fs {
				if strings.HasPrefix(f, "n=") {
					continue
				}
				i := strings.LastIndex(f, "=")
				if i < 0 {
					bad = f
					continue
				}
				k, v := f[:i], f[i+1:]
				got[k]++
				if wv, ok := want[k]; !ok {
					bad = fmt.Sprintf("yields key %s which is not in the map", k)
				} else if wv != v {
					bad = fmt.Sprintf("yields %s=%s, stored value is %s", k, v, wv)
				}
				if got[k] > 1 {
					bad = fmt.Sprintf("yields key %s %d times", k, got[k])
				}
			}
			if bad == "" && len(got) != len(want) {
				bad = fmt.Sprintf("yields %d entries, the map has %d", len(got), len(want))
			}
			if bad != "" {
				add("wrong-result:miter", "%s: iteration %s", where, bad)
			}
		case "mfree":
			if mm := maps[hn]; mm != nil {
				mm.freed = true
				mm.live = false
				mm.entries = map[string]string{}
			}
		case "mdestroy":
			delete(maps, hn)
		case "anew":
			es, _ := strconv.Atoi(op.Args[1])
			am := &arrModel{es: es}
			arrs[hn] = am
			switch out {
			case "ok":
				am.live = true
				if mayFail {
					pr.SuccessDespiteFault++
				}
			case "null":
				if !mayFail {
					add("unexpected-failure:anew", "%s returned NULL although no allocation failure was injected", where)
				} else {
					pr.FailuresAfterFault++
				}
			}
		case "aapp", "aappw":
			am := arrs[hn]
			switch out {
			case "1":
				if am == nil || !am.live {
					add("wrong-result:append-on-null", "%s succeeded on an array that does not exist", where)
					break
				}
				am.elems = append(am.elems, op.Args[1])
				switch len(am.elems) {
				case 5:
					pr.ArrGrow4++
				case 17:
					pr.ArrGrow16++
				case 65:
					pr.ArrGrow64++
				}
				if mayFail {
					pr.SuccessDespiteFault++
				}
			case "0":
				if am != nil && am.live && !mayFail {
					add("unexpected-failure:append", "%s reported failure although no allocation failure was injected", where)
				} else if mayFail {
					pr.FailuresAfterFault++
				}
			}
		case "aget":
			am := arrs[hn]
			i, _ := strconv.ParseInt(op.Args[1], 10, 64)
			want := "none"
			if am != nil && am.live && i >= 0 && i < int64(len(am.elems)) {
				want = am.elems[i]
			} else {
				pr.OutOfRange++
			}
			if out != want {
				add("wrong-result:aget", "%s returned %s, the model says %s (length %d)", where, out, want, alen(am))
			}
		case "aset":
			am := arrs[hn]
			i, _ := strconv.ParseInt(op.Args[1], 10, 64)
			valid := am != nil && am.live && i >= 0 && i < int64(len(am.elems))
			if valid {
				if out != "1" {
					add("wrong-result:aset", "%s refused a valid index (length %d)", where, alen(am))
				} else {
					am.elems[i] = op.Args[2]
				}
			} else {
				pr.OutOfRange++
				if out != "0" {
					add("wrong-result:aset", "%s accepted an out-of-range index (length %d)", where, alen(am))
				}
			}
		case "alen", "alenw":
			am := arrs[hn]
			if out != strconv.Itoa(alen(am)) {
				add("wrong-result:"+op.Name, "%s returned %s, the model has %d successful appends", where, out, alen(am))
			}
		case "acap":
			am := arrs[hn]
			c, _ := strconv.Atoi(out)
			if c < alen(am) {
				add("wrong-result:acap", "%s returned %d, below the length %d", where, c, alen(am))
			}
		case "ares":
			am := arrs[hn]
			n, _ := strconv.Atoi(op.Args[1])
			if out == "0" && am != nil && am.live && n >= 0 && !mayFail {
				add("unexpected-failure:resize", "%s reported failure although no allocation failure was injected", where)
			}
			if out == "0" && mayFail {
				pr.FailuresAfterFault++
			}
		case "afree":
			if am := arrs[hn]; am != nil {
				am.elems = nil
				am.live = false
				am.freed = true
			}
		case "adestroy":
			delete(arrs, hn)
		}
	}
	return issues
}

func (m *mapModel) note(pr *Probes) {
	n := len(m.entries)
	if n > m.maxSize {
		if m.maxSize <= 12 && n > 12 {
			pr.Rehash12++
		}
		if m.maxSize <= 24 && n > 24 {
			pr.Rehash24++
		}
		if m.maxSize <= 48 && n > 48 {
			pr.Rehash48++
		}
		m.maxSize = n
	}
}

func alen(a *arrModel) int {
	if a == nil || !a.live {
		return 0
	}
	return len(a.elems)
}

func trunc(s string, n int) string {
	if len(s) > n {
		return s[:n] + "…"
	}
	return s
}

// ---------------------------------------------------------------- running

var asanRe = regexp.MustCompile(`ERROR: AddressSanitizer: ([a-zA-Z0-9_-]+)`)
var ubsanRe = regexp.MustCompile(`runtime error: ([^\n]+)`)
var frameRe = regexp.MustCompile(`#\d+ 0x[0-9a-f]+ in (\w+) [^\n]*/runtime/(core|libs)/`)

// sanitizerIssue turns a sanitizer report / fatal signal into an issue.
func sanitizerIssue(pr core.ProcResult) *Issue {
	se := string(pr.Stderr)
	fn := "?"
	if m := frameRe.FindStringSubmatch(se); m != nil {
		fn = m[1]
	}
	if m := asanRe.FindStringSubmatch(se); m != nil {
		return &Issue{"memory:" + m[1] + "@" + fn, firstLines(se, 6)}
	}
	if m := ubsanRe.FindStringSubmatch(se); m != nil {
		kind := m[1]
		if i := strings.IndexAny(kind, "0123456789"); i > 8 {
			kind = strings.TrimSpace(kind[:i])
		}
		return &Issue{"memory:ub:" + sanitize(kind) + "@" + fn, firstLines(se, 6)}
	}
	if pr.Signal != "" {
		return &Issue{"memory:signal:" + pr.Signal, firstLines(se, 6)}
	}
	return nil
}

func sanitize(s string) string {
	var b strings.Builder
	for _, c := range s {
		if c >= 'a' && c <= 'z' || c >= 'A' && c <= 'Z' || c >= '0' && c <= '9' {
			b.WriteRune(c)
		} else {
			b.WriteByte('-')
		}
	}
	out := b.String()
	if len(out) > 40 {
		out = out[:40]
	}
	return out
}

func firstLines(s string, n int) string {
	ls := strings.Split(strings.TrimSpace(s), "\n")
	if len(ls) > n {
		ls = ls[:n]
	}
	return strings.Join(ls, " | ")
}

type Outcome struct {
	Issues  []Issue
	Trouble string
	Stats   string
}

// RunHistories executes histories in as few driver processes as possible and checks each.
func (b *Build) RunHistories(hs []*History, pr *Probes) []Outcome {
	outs := make([]Outcome, len(hs))
	idx := 0
	for idx < len(hs) {
		var sb strings.Builder
		for _, h := range hs[idx:] {
			sb.WriteString(h.Script())
		}
		dir, _ := os.MkdirTemp(b.S.Dir, "run")
		sp := filepath.Join(dir, "script.txt")
		os.WriteFile(sp, []byte(sb.String()), 0644)
		env := append(os.Environ(), "ASAN_OPTIONS=detect_leaks=0:abort_on_error=0:allocator_may_return_null=1", "UBSAN_OPTIONS=print_stacktrace=1")
		res := core.RunProc(120*time.Second, dir, env, nil, b.Driver, sp)
		os.RemoveAll(dir)
		// split output by history
		lines := strings.Split(string(res.Stdout), "\n")
		cur := -1
		per := map[int][]string{}
		ended := false
		for _, l := range lines {
			f := strings.Fields(l)
			if len(f) >= 3 && f[1] == "H" {
				id, _ := strconv.Atoi(f[2])
				cur = id
				per[cur] = []string{}
				continue
			}
			if strings.HasPrefix(l, "END ") {
				ended = true
				continue
			}
			if cur >= 0 && l != "" {
				per[cur] = append(per[cur], l)
			}
		}
		progressed := 0
		for k := idx; k < len(hs); k++ {
			h := hs[k]
			ls, ok := per[h.ID]
			if !ok {
				break
			}
			last := k+1 < len(hs) && per[hs[k+1].ID] == nil || k+1 == len(hs)
			o := &outs[k]
			o.Issues = Check(h, ls, pr)
			progressed++
			if last && !ended {
				// the process died inside this history
				if res.TimedOut {
					o.Issues = append(o.Issues, Issue{"hang", "the driver did not finish within 120 s"})
				} else if is := sanitizerIssue(res); is != nil {
					nops := 0
					for _, op := range h.Ops {
						if op.Name != "F" {
							nops++
						}
					}
					at := len(ls)
					is.Detail = fmt.Sprintf("after %d of %d operations: %s", at, nops, is.Detail)
					o.Issues = append(o.Issues, *is)
				} else {
					o.Trouble = fmt.Sprintf("driver ended unexpectedly: exit=%d signal=%q stderr=%s", res.ExitCode, res.Signal, firstLines(string(res.Stderr), 5))
				}
				break
			}
		}
		if progressed == 0 {
			outs[idx].Trouble = fmt.Sprintf("driver produced nothing: exit=%d stderr=%s", res.ExitCode, firstLines(string(res.Stderr), 5))
			progressed = 1
		}
		idx += progressed
	}
	return outs
}

// JudgeOne runs a single history in a fresh process.
func (b *Build) JudgeOne(h *History) ([]Issue, string) {
	var pr Probes
	o := b.RunHistories([]*History{h}, &pr)
	return o[0].Issues, o[0].Trouble
}

// ---------------------------------------------------------------- shrinking, replay

type Replay struct {
	Property string   `json:"property"`
	Class    string   `json:"class"`
	Detail   string   `json:"detail"`
	Seed     uint64   `json:"seed"`
	History  History  `json:"history"`
	Script   string   `json:"script"`
	Steps    []string `json:"shrink_log"`
}

func hasClass(is []Issue, cls string) bool {
	for _, i := range is {
		if i.Class == cls {
			return true
		}
	}
	return false
}

// Shrink removes operations while the class persists.
func (b *Build) Shrink(h *History, cls string, budget int) (*History, []string) {
	evals := 0
	cur := *h
	test := func(ops []Op) bool {
		if evals >= budget {
			return false
		}
		evals++
		t := cur
		t.Ops = ops
		is, tr := b.JudgeOne(&t)
		return tr == "" && hasClass(is, cls)
	}
	ops := cur.Ops
	n := 2
	for len(ops) >= 2 {
		chunk := (len(ops) + n - 1) / n
		reduced := false
		for s := 0; s < len(ops); s += chunk {
			e := s + chunk
			if e > len(ops) {
				e = len(ops)
			}
			cand := append(append([]Op{}, ops[:s]...), ops[e:]...)
			if len(cand) > 0 && test(cand) {
				ops = cand
				if n > 2 {
					n--
				}
				reduced = true
				break
			}
		}
		if !reduced {
			if n >= len(ops) {
				break
			}
			n *= 2
			if n > len(ops) {
				n = len(ops)
			}
		}
	}
	log := []string{fmt.Sprintf("%d -> %d operations, %d evaluations", len(h.Ops), len(ops), evals)}
	// simplest allocator configuration that still fails
	for _, alt := range []string{"C fill=00 realloc=native zero=unique cap=67108864", "C fill=a5 realloc=native zero=unique cap=67108864", "C fill=00 realloc=move zero=unique cap=67108864"} {
		if cur.Config == alt {
			break
		}
		t := cur
		t.Ops = ops
		t.Config = alt
		if is, tr := b.JudgeOne(&t); tr == "" && hasClass(is, cls) {
			cur.Config = alt
			log = append(log, "allocator configuration simplified to: "+alt)
			break
		}
	}
	cur.Ops = ops
	return &cur, log
}

func ReplayFile(path string) int {
	data, err := os.ReadFile(path)
	if err != nil {
		fmt.Fprintln(os.Stderr, "replay:", err)
		return 2
	}
	var rep Replay
	if err := json.Unmarshal(data, &rep); err != nil {
		fmt.Fprintln(os.Stderr, "replay:", err)
		return 2
	}
	b, err := Prepare()
	if err != nil {
		fmt.Fprintln(os.Stderr, "replay: build failed:", err)
		if b != nil {
			b.Close()
		}
		return 2
	}
	defer b.Close()
	is, tr := b.JudgeOne(&rep.History)
	if tr != "" {
		fmt.Fprintln(os.Stderr, "replay: harness trouble:", tr)
		return 2
	}
	for _, i := range is {
		fmt.Printf("issue: %s — %s\n", i.Class, i.Detail)
	}
	if hasClass(is, rep.Class) {
		fmt.Printf("VIOLATION property=%s replay=%s\n", rep.Property, path)
		return 1
	}
	fmt.Printf("replay: violation class %q did not reproduce\n", rep.Class)
	return 0
}

// ---------------------------------------------------------------- the check

func shape(h *History) string {
	var parts []string
	prev := ""
	for _, o := range h.Ops {
		n := o.Name
		if n == "msize" || n == "miter" || n == "alen" {
			continue
		}
		if n != prev {
			parts = append(parts, n)
			prev = n
		}
	}
	return h.Config + "|" + strings.Join(parts, ",")
}

func CheckC17(tier string, seed uint64) int {
	t0 := time.Now()
	b, err := Prepare()
	if err != nil {
		fmt.Fprintln(os.Stderr, "C17: build failed:", err)
		if b != nil {
			b.Close()
		}
		return 2
	}
	defer b.Close()
	fmt.Printf("C17: driver built in %.0fs\n", b.Sec)
	findings, err := core.LoadFindings()
	if err != nil {
		fmt.Fprintln(os.Stderr, "C17:", err)
		return 2
	}
	nHist, maxOps, batch := 4000, 60, 50
	if tier == "thorough" {
		nHist, maxOps, batch = 120000, 300, 100
	}
	hs := make([]*History, nHist)
	for i := range hs {
		r := core.Sub(seed, "c17", i)
		hs[i] = Generate(r, i, maxOps, i%2 == 1)
	}
	nb := (nHist + batch - 1) / batch
	probes := make([]Probes, nb)
	type found struct {
		h     *History
		issue Issue
		count int
	}
	var mu = make(chan struct{}, 1)
	mu <- struct{}{}
	classes := map[string]*found{}
	var trouble []string
	core.ParallelDo(nb, func(bi int) {
		lo, hi := bi*batch, (bi+1)*batch
		if hi > nHist {
			hi = nHist
		}
		outs := b.RunHistories(hs[lo:hi], &probes[bi])
		<-mu
		for k, o := range outs {
			if o.Trouble != "" && len(trouble) < 10 {
				trouble = append(trouble, o.Trouble)
			}
			for _, is := range o.Issues {
				f := classes[is.Class]
				if f == nil {
					f = &found{h: hs[lo+k], issue: is}
					classes[is.Class] = f
				}
				f.count++
			}
		}
		mu <- struct{}{}
	})
	exit, violations := 0, 0
	known := map[string]int{}
	names := make([]string, 0, len(classes))
	for c := range classes {
		names = append(names, c)
	}
	sort.Strings(names)
	for _, cls := range names {
		f := classes[cls]
		if kf := findings.Match("C17", cls); kf != nil {
			known[cls] = f.count
			fmt.Printf("KNOWN-FINDING: property=C17 %s [%s] (%d histories)\n", kf.What, cls, f.count)
			continue
		}
		if strings.HasPrefix(cls, "harness:") {
			trouble = append(trouble, cls+": "+f.issue.Detail)
			continue
		}
		is, tr := b.JudgeOne(f.h)
		if tr != "" || !hasClass(is, cls) {
			trouble = append(trouble, fmt.Sprintf("issue %q did not reproduce in a fresh process (%s)", cls, tr))
			continue
		}
		budget := 300
		if tier == "thorough" {
			budget = 1500
		}
		sh, log := b.Shrink(f.h, cls, budget)
		detail := f.issue.Detail
		if is, tr := b.JudgeOne(sh); tr == "" && hasClass(is, cls) {
			for _, i := range is {
				if i.Class == cls {
					detail = i.Detail
				}
			}
		} else {
			sh = f.h
			log = append(log, "minimised history did not reproduce; original kept")
		}
		rep := Replay{Property: "C17", Class: cls, Detail: detail, Seed: seed, History: *sh, Script: sh.Script(), Steps: log}
		path := filepath.Join(core.VerifDir(), "replays", "C17-"+sanitize(cls)+".json")
		if err := core.WriteJSON(path, rep); err != nil {
			trouble = append(trouble, err.Error())
			continue
		}
		violations++
		exit = 1
		fmt.Printf("VIOLATION property=C17 replay=%s\n  class: %s\n  detail: %s\n  seen in %d histories; %s\n", path, cls, detail, f.count, strings.Join(log, "; "))
	}
	if len(trouble) > 0 {
		for _, t := range trouble {
			fmt.Fprintln(os.Stderr, "HARNESS-TROUBLE:", t)
		}
		if exit == 0 {
			exit = 2
		}
	}
	var tot Probes
	tot.FiredByOp = map[string]int{}
	for _, p := range probes {
		tot.Ops += p.Ops
		tot.FaultsArmed += p.FaultsArmed
		tot.FaultsFired += p.FaultsFired
		tot.FailuresAfterFault += p.FailuresAfterFault
		tot.SuccessDespiteFault += p.SuccessDespiteFault
		tot.Rehash12 += p.Rehash12
		tot.Rehash24 += p.Rehash24
		tot.Rehash48 += p.Rehash48
		tot.ArrGrow4 += p.ArrGrow4
		tot.ArrGrow16 += p.ArrGrow16
		tot.ArrGrow64 += p.ArrGrow64
		tot.UpdatesOfExisting += p.UpdatesOfExisting
		tot.Misses += p.Misses
		tot.OutOfRange += p.OutOfRange
		for k, v := range p.FiredByOp {
			tot.FiredByOp[k] += v
		}
	}
	shapes := map[string]bool{}
	cfgs := map[string]int{}
	for _, h := range hs {
		shapes[shape(h)] = true
		cfgs[h.Config]++
	}
	cls := map[string]int{}
	for c, f := range classes {
		cls[c] = f.count
	}
	wall := time.Since(t0).Seconds()
	ev := &core.Evidence{
		PropertyID: "C17", Tier: tier, Seed: int64(seed), Level: "exploration",
		Coverage: map[string]any{
			"evaluations":         nHist,
			"distinct_nontrivial": len(shapes),
			"rule": "one evaluation = one seeded operation history (maps with i32/i64/string/byte-blob keys, dynamic arrays, the len/append wrappers, optional out-layout) executed by the real runtime C code under ASan+UBSan with a simulated allocator; " +
				"every result line is compared with a dict/list model; odd-numbered histories arm allocation failures inside operations. distinct_nontrivial = distinct (allocator configuration, run-length-collapsed operation sequence) shapes",
			"samples":                           []any{hs[0].Script(), hs[1].Script()},
			"operations_executed":               tot.Ops,
			"fault_kinds":                       map[string]any{"allocation_failure_armed": tot.FaultsArmed, "allocation_failure_fired": tot.FaultsFired, "fired_by_operation": tot.FiredByOp, "operation_failed_after_fault": tot.FailuresAfterFault, "operation_succeeded_despite_fault": tot.SuccessDespiteFault},
			"allocator_configurations":          cfgs,
			"probe_map_grew_past_12_entries":    tot.Rehash12,
			"probe_map_grew_past_24_entries":    tot.Rehash24,
			"probe_map_grew_past_48_entries":    tot.Rehash48,
			"probe_array_grew_past_4_16_64":     []int{tot.ArrGrow4, tot.ArrGrow16, tot.ArrGrow64},
			"probe_updates_of_existing_key":     tot.UpdatesOfExisting,
			"probe_lookups_of_absent_key":       tot.Misses,
			"probe_out_of_range_array_requests": tot.OutOfRange,
			"histories_per_hour":                int(float64(nHist) / wall * 3600),
			"violation_classes":                 cls,
			"known_findings_hit":                known,
			"real_components":                   "runtime/core/map.c, array.c, optional.c, string_runtime.c, runtime/libs/len.c, append.c compiled from /repo/runtime",
			"stubbed_components":                "libc allocator (simulated: scripted failure of the n-th call of an operation, always-moving realloc, dirty fresh memory, NULL or unique zero-size results, exhaustion cap)",
			"build_seconds":                     b.Sec,
		},
		Assumptions: []string{
			"expectations come from the API comments in map.h / array.h (NULL/false on allocation failure, NULL/false out of range); bucket counts, load factor and growth factor appear nowhere in the model",
			"under an armed allocation failure that fired, the operation may report failure (then it must have had no abstract effect) or succeed; it may never succeed with wrong data",
			"using a map after ferret_map_free is outside the property's quantifier and is not generated (free is always followed by destroy)",
		},
		WallS: wall, Violations: violations,
	}
	if err := core.WriteEvidence(ev); err != nil {
		fmt.Fprintln(os.Stderr, "C17: evidence:", err)
		return 2
	}
	fmt.Printf("C17 %s: %d histories, %d operations, %d faults fired, %d shapes, %d classes of issue, %.0fs\n", tier, nHist, tot.Ops, tot.FaultsFired, len(shapes), len(classes), wall)
	return exit
}
