// Package core holds what every engine of the verification framework shares:
// the seeded PRNG with named sub-streams, the scratch-copy life cycle, a
// bounded process pool, evidence files and the known-findings list.
package core

import (
	"bytes"
	"context"
	"encoding/json"
	"errors"
	"fmt"
	"hash/fnv"
	"io"
	"os"
	"os/exec"
	"path/filepath"
	"runtime"
	"sort"
	"strconv"
	"strings"
	"sync"
	"syscall"
	"time"
)

// RepoDir is the tree under verification. VERIF_REPO overrides it for
// development experiments on scratch worktrees only; registered checks run
// without it and therefore against /repo.
var RepoDir = func() string {
	if d := os.Getenv("VERIF_REPO"); d != "" {
		return d
	}
	return "/repo"
}()

// ---------------------------------------------------------------- PRNG

// Rng is splitmix64. Sub-streams are derived by name so that adding a
// consumer never shifts what the others draw.
type Rng struct{ x uint64 }

func NewRng(seed uint64) *Rng { return &Rng{seed*0x9E3779B97F4A7C15 + 0x1234567} }

func (r *Rng) Uint64() uint64 {
	r.x += 0x9e3779b97f4a7c15
	z := r.x
	z = (z ^ (z >> 30)) * 0xbf58476d1ce4e5b9
	z = (z ^ (z >> 27)) * 0x94d049bb133111eb
	return z ^ (z >> 31)
}

func (r *Rng) Intn(n int) int {
	if n <= 1 {
		return 0
	}
	return int(r.Uint64() % uint64(n))
}

func (r *Rng) Range(lo, hi int) int     { return lo + r.Intn(hi-lo+1) } // inclusive
func (r *Rng) Chance(num, den int) bool { return r.Intn(den) < num }
func (r *Rng) Float() float64           { return float64(r.Uint64()>>11) / float64(1<<53) }

func Pick[T any](r *Rng, xs []T) T { return xs[r.Intn(len(xs))] }

func (r *Rng) Shuffle(n int, swap func(i, j int)) {
	for i := n - 1; i > 0; i-- {
		swap(i, r.Intn(i+1))
	}
}

// Sub derives an independent stream from a seed and a name path.
func Sub(seed uint64, names ...any) *Rng {
	h := fnv.New64a()
	fmt.Fprintf(h, "%d", seed)
	for _, n := range names {
		fmt.Fprintf(h, "/%v", n)
	}
	return NewRng(h.Sum64())
}

// SubSeed is Sub(...).Uint64(), for seeds handed to child processes.
func SubSeed(seed uint64, names ...any) uint64 { return Sub(seed, names...).Uint64() }

// ---------------------------------------------------------------- environment

func GoEnv() []string {
	env := os.Environ()
	out := env[:0:0]
	for _, e := range env {
		if strings.HasPrefix(e, "GOFLAGS=") || strings.HasPrefix(e, "GOPROXY=") || strings.HasPrefix(e, "GOSUMDB=") ||
			strings.HasPrefix(e, "GOTOOLCHAIN=") || strings.HasPrefix(e, "PATH=") {
			continue
		}
		out = append(out, e)
	}
	path := os.Getenv("PATH")
	goroot := "/opt/veriftools/go1.26.8"
	if _, err := os.Stat(goroot + "/bin/go"); err == nil {
		path = goroot + "/bin:" + path
	}
	out = append(out, "GOFLAGS=-mod=mod", "GOPROXY=off", "GOSUMDB=off", "GOTOOLCHAIN=local", "PATH="+path)
	return out
}

// SetupEnv makes this process (and so every child) use the offline Go 1.26.8 tool chain.
func SetupEnv() {
	for _, kv := range GoEnv() {
		if i := strings.Index(kv, "="); i > 0 {
			k := kv[:i]
			switch k {
			case "GOFLAGS", "GOPROXY", "GOSUMDB", "GOTOOLCHAIN", "PATH":
				os.Setenv(k, kv[i+1:])
			}
		}
	}
}

func Seed() uint64 {
	if v := os.Getenv("VERIF_SEED"); v != "" {
		if n, err := strconv.ParseUint(v, 10, 64); err == nil {
			return n
		}
		if n, err := strconv.ParseInt(v, 10, 64); err == nil {
			return uint64(n)
		}
	}
	return 1
}

func Workers() int {
	if v := os.Getenv("VERIF_WORKERS"); v != "" {
		if n, err := strconv.Atoi(v); err == nil && n > 0 {
			return n
		}
	}
	n := runtime.NumCPU()
	if n > 16 {
		n = 16
	}
	return n
}

// ---------------------------------------------------------------- scratch

type Scratch struct {
	Dir string
}

var (
	scratchMu  sync.Mutex
	scratchAll []*Scratch
)

func NewScratch(tag string) (*Scratch, error) {
	base := os.Getenv("VERIF_SCRATCH")
	if base == "" {
		base = "/var/tmp"
	}
	if err := os.MkdirAll(base, 0755); err != nil {
		return nil, err
	}
	dir, err := os.MkdirTemp(base, "fv-"+tag+"-")
	if err != nil {
		return nil, err
	}
	s := &Scratch{Dir: dir}
	scratchMu.Lock()
	scratchAll = append(scratchAll, s)
	scratchMu.Unlock()
	return s, nil
}

func (s *Scratch) Remove() {
	if s == nil || s.Dir == "" {
		return
	}
	if os.Getenv("VERIF_KEEP_SCRATCH") != "" {
		fmt.Fprintln(os.Stderr, "keeping scratch", s.Dir)
		return
	}
	// files created under an injected EACCES etc. are ordinary; chmod just in case
	filepath.Walk(s.Dir, func(p string, info os.FileInfo, err error) error {
		if err == nil && info.IsDir() {
			os.Chmod(p, 0755)
		}
		return nil
	})
	os.RemoveAll(s.Dir)
}

func RemoveAllScratch() {
	scratchMu.Lock()
	all := scratchAll
	scratchAll = nil
	scratchMu.Unlock()
	for _, s := range all {
		s.Remove()
	}
}

// CopyTree copies src to dst, skipping .git and anything skip() names.
func CopyTree(src, dst string, skip func(rel string, info os.FileInfo) bool) error {
	return filepath.Walk(src, func(p string, info os.FileInfo, err error) error {
		if err != nil {
			return err
		}
		rel, _ := filepath.Rel(src, p)
		if rel == "." {
			return os.MkdirAll(dst, 0755)
		}
		if info.IsDir() && (info.Name() == ".git") {
			return filepath.SkipDir
		}
		if skip != nil && skip(rel, info) {
			if info.IsDir() {
				return filepath.SkipDir
			}
			return nil
		}
		target := filepath.Join(dst, rel)
		switch {
		case info.IsDir():
			return os.MkdirAll(target, 0755)
		case info.Mode()&os.ModeSymlink != 0:
			l, err := os.Readlink(p)
			if err != nil {
				return err
			}
			return os.Symlink(l, target)
		case info.Mode().IsRegular():
			return CopyFile(p, target, info.Mode().Perm())
		}
		return nil
	})
}

func CopyFile(src, dst string, perm os.FileMode) error {
	in, err := os.Open(src)
	if err != nil {
		return err
	}
	defer in.Close()
	out, err := os.OpenFile(dst, os.O_CREATE|os.O_TRUNC|os.O_WRONLY, perm|0200)
	if err != nil {
		return err
	}
	if _, err := io.Copy(out, in); err != nil {
		out.Close()
		return err
	}
	return out.Close()
}

// Run runs a command with a timeout and returns combined output.
func Run(dir string, env []string, timeout time.Duration, name string, args ...string) (string, error) {
	ctx, cancel := context.WithTimeout(context.Background(), timeout)
	defer cancel()
	cmd := exec.CommandContext(ctx, name, args...)
	cmd.Dir = dir
	cmd.Env = env
	var buf bytes.Buffer
	cmd.Stdout = &buf
	cmd.Stderr = &buf
	cmd.SysProcAttr = &syscall.SysProcAttr{Setpgid: true}
	cmd.Cancel = func() error { return syscall.Kill(-cmd.Process.Pid, syscall.SIGKILL) }
	err := cmd.Run()
	if ctx.Err() != nil {
		return buf.String(), fmt.Errorf("timeout after %v: %s %v", timeout, name, args)
	}
	return buf.String(), err
}

// ---------------------------------------------------------------- process pool

// ParallelDo runs fn(i) for i in [0,n) on Workers() goroutines. fn must be
// deterministic per index; results are collected by index by the caller.
func ParallelDo(n int, fn func(i int)) {
	w := Workers()
	if w > n {
		w = n
	}
	var wg sync.WaitGroup
	next := 0
	var mu sync.Mutex
	for k := 0; k < w; k++ {
		wg.Add(1)
		go func() {
			defer wg.Done()
			for {
				mu.Lock()
				i := next
				next++
				mu.Unlock()
				if i >= n {
					return
				}
				fn(i)
			}
		}()
	}
	wg.Wait()
}

// ProcResult is the outcome of one child process.
type ProcResult struct {
	Stdout   []byte
	Stderr   []byte
	ExitCode int    // -1 if killed by signal
	Signal   string // name of the terminating signal, if any
	TimedOut bool
	Wall     time.Duration
	CPU      time.Duration
	Err      error
}

// RunProc runs one child with a wall-clock timeout, capturing output.
func RunProc(timeout time.Duration, dir string, env []string, stdin []byte, name string, args ...string) ProcResult {
	ctx, cancel := context.WithTimeout(context.Background(), timeout)
	defer cancel()
	cmd := exec.CommandContext(ctx, name, args...)
	cmd.Dir = dir
	if env != nil {
		cmd.Env = env
	}
	var so, se bytes.Buffer
	cmd.Stdout = &limitedWriter{w: &so, n: 8 << 20}
	cmd.Stderr = &limitedWriter{w: &se, n: 8 << 20}
	if stdin != nil {
		cmd.Stdin = bytes.NewReader(stdin)
	}
	cmd.SysProcAttr = &syscall.SysProcAttr{Setpgid: true}
	cmd.Cancel = func() error { return syscall.Kill(-cmd.Process.Pid, syscall.SIGKILL) }
	cmd.WaitDelay = 2 * time.Second
	t0 := time.Now()
	err := cmd.Run()
	r := ProcResult{Stdout: so.Bytes(), Stderr: se.Bytes(), Wall: time.Since(t0)}
	if cmd.ProcessState != nil {
		r.CPU = cmd.ProcessState.UserTime() + cmd.ProcessState.SystemTime()
		r.ExitCode = cmd.ProcessState.ExitCode()
		if ws, ok := cmd.ProcessState.Sys().(syscall.WaitStatus); ok && ws.Signaled() {
			r.Signal = ws.Signal().String()
			r.ExitCode = -1
		}
	} else {
		r.ExitCode = -2
	}
	if ctx.Err() != nil {
		r.TimedOut = true
	}
	var ee *exec.ExitError
	if err != nil && !errors.As(err, &ee) {
		r.Err = err
	}
	return r
}

type limitedWriter struct {
	w io.Writer
	n int
}

func (l *limitedWriter) Write(p []byte) (int, error) {
	if l.n <= 0 {
		return len(p), nil
	}
	q := p
	if len(q) > l.n {
		q = q[:l.n]
	}
	l.n -= len(q)
	l.w.Write(q)
	return len(p), nil
}

// ---------------------------------------------------------------- evidence

type Evidence struct {
	PropertyID  string         `json:"property_id"`
	Tier        string         `json:"tier"`
	Seed        int64          `json:"seed"`
	Level       string         `json:"level"`
	Coverage    map[string]any `json:"coverage"`
	Assumptions []string       `json:"assumptions"`
	WallS       float64        `json:"wall_s"`
	Violations  int            `json:"violations"`
}

func VerifDir() string {
	if d := os.Getenv("VERIF_DIR"); d != "" {
		return d
	}
	// the binary lives in <verif>/bin
	exe, err := os.Executable()
	if err == nil {
		d := filepath.Dir(filepath.Dir(exe))
		if _, err := os.Stat(filepath.Join(d, "properties.jsonl")); err == nil {
			return d
		}
	}
	wd, _ := os.Getwd()
	return wd
}

func WriteEvidence(e *Evidence) error {
	dir := filepath.Join(VerifDir(), "evidence")
	if err := os.MkdirAll(dir, 0755); err != nil {
		return err
	}
	data, err := json.MarshalIndent(e, "", " ")
	if err != nil {
		return err
	}
	return os.WriteFile(filepath.Join(dir, e.PropertyID+".json"), append(data, '\n'), 0644)
}

// ---------------------------------------------------------------- known findings

type Finding struct {
	Property  string `json:"property"`
	Status    string `json:"status"` // "known" or "fixed"
	Signature string `json:"signature"`
	What      string `json:"what"`
	Commit    string `json:"commit,omitempty"`
}

type Findings struct {
	Entries []Finding `json:"findings"`
}

func LoadFindings() (*Findings, error) {
	data, err := os.ReadFile(filepath.Join(VerifDir(), "known_findings.json"))
	if err != nil {
		if os.IsNotExist(err) {
			return &Findings{}, nil
		}
		return nil, err
	}
	var f Findings
	if err := json.Unmarshal(data, &f); err != nil {
		return nil, fmt.Errorf("known_findings.json: %w", err)
	}
	return &f, nil
}

// Match returns the known (not fixed) finding whose signature equals sig.
func (f *Findings) Match(prop, sig string) *Finding {
	for i := range f.Entries {
		e := &f.Entries[i]
		if e.Property == prop && e.Status == "known" && e.Signature == sig {
			return e
		}
	}
	return nil
}

// ---------------------------------------------------------------- misc

func SortedKeys[V any](m map[string]V) []string {
	ks := make([]string, 0, len(m))
	for k := range m {
		ks = append(ks, k)
	}
	sort.Strings(ks)
	return ks
}

func Die(code int, format string, args ...any) {
	fmt.Fprintf(os.Stderr, format+"\n", args...)
	RemoveAllScratch()
	os.Exit(code)
}

func WriteJSON(path string, v any) error {
	data, err := json.MarshalIndent(v, "", " ")
	if err != nil {
		return err
	}
	if err := os.MkdirAll(filepath.Dir(path), 0755); err != nil {
		return err
	}
	return os.WriteFile(path, append(data, '\n'), 0644)
}
