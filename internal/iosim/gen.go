// Package iosim is engine C of DESIGN.md: a compiled Ferret program runs as a
// process inside a simulated stdio environment (terminal, pipes of several
// behaviours, file, full device); the workload is seeded histories over
// dynamic arrays and strings, the oracle a list model.
package iosim

import (
	"fmt"
	"strconv"
	"strings"

	"verif/internal/core"
)

// ---- a tiny AST with its own interpreter: the interpreter is the list model

type expr interface {
	src() string
	eval(e *env) int64
}

type lit int64
type cst struct {
	name string
	val  int64
}
type opaque struct{ x expr }
type loopVar struct{ name string }
type lenMinus struct {
	arr string
	k   int64
}
type negLoop struct { // -1 - i
	name string
}

// wideIdx is an index that reaches the access through a function of a 64-bit
// or unsigned type: idx64 (i64), idxu32 (u32), idxu64 (u64). val is its
// mathematical value (saturated at MaxInt64 for u64 values beyond it).
type wideIdx struct {
	fn  string
	lit string
	val int64
}

// varRef reads a scalar variable declared by declVar.
type varRef struct{ name string }

func (w wideIdx) src() string        { return w.fn + "(" + w.lit + ")" }
func (w wideIdx) eval(*env) int64    { return w.val }
func (v varRef) src() string         { return v.name }
func (v varRef) eval(e *env) int64   { return e.vars[v.name] }
func (l lit) src() string            { return strconv.FormatInt(int64(l), 10) }
func (l lit) eval(*env) int64        { return int64(l) }
func (c cst) src() string            { return c.name }
func (c cst) eval(*env) int64        { return c.val }
func (o opaque) src() string         { return "idx(" + o.x.src() + ")" }
func (o opaque) eval(e *env) int64   { return o.x.eval(e) }
func (v loopVar) src() string        { return v.name }
func (v loopVar) eval(e *env) int64  { return e.vars[v.name] }
func (l lenMinus) src() string       { return fmt.Sprintf("len(%s) - %d", l.arr, l.k) }
func (l lenMinus) eval(e *env) int64 { return int64(e.length(l.arr)) - l.k }
func (n negLoop) src() string        { return "-1 - " + n.name }
func (n negLoop) eval(e *env) int64  { return -1 - e.vars[n.name] }

type stmt interface {
	emit(b *strings.Builder, ind string)
	run(e *env) bool // false: the program panicked here
}

type tagStmt struct{ tag string }
type printIdx struct {
	tag string
	x   string // array or string variable
	i   expr
}
type printLen struct {
	tag string
	x   string
}
type appendStmt struct {
	tag string
	arr string
	v   value
}
type assignStmt struct {
	tag string
	arr string
	i   expr
	v   value
}
type reassignStmt struct {
	tag  string
	arr  string
	vals []value
}

// declVar / setVar: an i32 variable used as an index (a compile-time constant
// until something assigns it on one path only).
type declVar struct {
	name string
	v    int64
}
type setVar struct {
	tag  string
	name string
	v    int64
}

// closureIdx: an index variable that a closure assigns; the closure is called
// after a later plain assignment, so the value at the access is the closure's.
type closureIdx struct {
	tag    string
	k      string
	v0, v1 int64 // declared value, value the closure assigns
	v2     int64 // assigned textually between the closure and its call
	arr    string
}

// set2Stmt: two element stores through an array passed by value (i32 arrays).
type set2Stmt struct {
	tag  string
	arr  string
	i, j int64
	v, w value
}

// copyStmt: dst = src (two array variables of the same type).
type copyStmt struct {
	tag      string
	dst, src string
}
type ifStmt struct {
	arr  string
	op   string // ">" "==" "<"
	c    int64
	then []stmt
	els  []stmt
}
type whileStmt struct {
	v    string
	n    int64
	body []stmt
}
type declArr struct {
	name string
	typ  string // "" = inferred from an i32 literal
	vals []value
}
type declStr struct {
	name string
	s    string
}

// value is an element value with its source form and its printed form.
type value struct{ src, out string }

type env struct {
	arrs map[string][]string
	strs map[string]string
	vars map[string]int64
	out  strings.Builder
	// probes
	validAfterAppend int // reads of a position that exists only because of an append
	negReads         int
	oobKind          string
}

func (e *env) length(x string) int {
	if a, ok := e.arrs[x]; ok {
		return len(a)
	}
	return len(e.strs[x])
}

func (e *env) println(s string) { e.out.WriteString(s); e.out.WriteString("\n") }

// norm maps an index to a position; ok=false means out of range.
func norm(i int64, n int) (int, bool) {
	if i < 0 {
		i += int64(n)
	}
	if i < 0 || i >= int64(n) {
		return 0, false
	}
	return int(i), true
}

func (s tagStmt) emit(b *strings.Builder, ind string) {
	fmt.Fprintf(b, "%sio::Println(\"%s\");\n", ind, s.tag)
}
func (s tagStmt) run(e *env) bool { e.println(s.tag); return true }

func (s printIdx) emit(b *strings.Builder, ind string) {
	fmt.Fprintf(b, "%sio::Println(\"%s\");\n%sio::Println(%s[%s]);\n", ind, s.tag, ind, s.x, s.i.src())
}
func (s printIdx) run(e *env) bool {
	e.println(s.tag)
	return s.runNoTag(e)
}
func (s printIdx) runNoTag(e *env) bool {
	i := s.i.eval(e)
	p, ok := norm(i, e.length(s.x))
	if !ok {
		e.oobKind = "read"
		return false
	}
	if i < 0 {
		e.negReads++
	}
	if a, isArr := e.arrs[s.x]; isArr {
		e.println(a[p])
	} else {
		e.println(string([]byte{e.strs[s.x][p]}))
	}
	return true
}

func (s printLen) emit(b *strings.Builder, ind string) {
	fmt.Fprintf(b, "%sio::Println(\"%s\");\n%sio::Println(len(%s));\n", ind, s.tag, ind, s.x)
}
func (s printLen) run(e *env) bool {
	e.println(s.tag)
	e.println(strconv.Itoa(e.length(s.x)))
	return true
}

func (s appendStmt) emit(b *strings.Builder, ind string) {
	fmt.Fprintf(b, "%sio::Println(\"%s\");\n%sappend(&'%s, %s);\n", ind, s.tag, ind, s.arr, s.v.src)
}
func (s appendStmt) run(e *env) bool {
	e.println(s.tag)
	e.arrs[s.arr] = append(e.arrs[s.arr], s.v.out)
	return true
}

func (s assignStmt) emit(b *strings.Builder, ind string) {
	fmt.Fprintf(b, "%sio::Println(\"%s\");\n%s%s[%s] = %s;\n", ind, s.tag, ind, s.arr, s.i.src(), s.v.src)
}
func (s assignStmt) run(e *env) bool {
	e.println(s.tag)
	p, ok := norm(s.i.eval(e), len(e.arrs[s.arr]))
	if !ok {
		e.oobKind = "write"
		return false
	}
	e.arrs[s.arr][p] = s.v.out
	return true
}

func (s closureIdx) emit(b *strings.Builder, ind string) {
	fmt.Fprintf(b, "%sio::Println(\"%s\");\n%slet %s: i32 = %d;\n%slet f%s := fn() {\n%s    %s = %d;\n%s};\n%s%s = %d;\n%sf%s();\n%sio::Println(%s[%s]);\n",
		ind, s.tag, ind, s.k, s.v0, ind, s.k, ind, s.k, s.v1, ind, ind, s.k, s.v2, ind, s.k, ind, s.arr, s.k)
}
func (s closureIdx) run(e *env) bool {
	e.println(s.tag)
	e.vars[s.k] = s.v1
	return printIdx{"", s.arr, varRef{s.k}}.runNoTag(e)
}

func (s set2Stmt) emit(b *strings.Builder, ind string) {
	fmt.Fprintf(b, "%sio::Println(\"%s\");\n%sset2(%s, %d, %s, %d, %s);\n", ind, s.tag, ind, s.arr, s.i, s.v.src, s.j, s.w.src)
}
func (s set2Stmt) run(e *env) bool {
	e.println(s.tag)
	for _, st := range [][2]any{{s.i, s.v}, {s.j, s.w}} {
		p, ok := norm(st[0].(int64), len(e.arrs[s.arr]))
		if !ok {
			e.oobKind = "write"
			return false
		}
		e.arrs[s.arr][p] = st[1].(value).out
	}
	return true
}

func (s copyStmt) emit(b *strings.Builder, ind string) {
	fmt.Fprintf(b, "%sio::Println(\"%s\");\n%s%s = %s;\n", ind, s.tag, ind, s.dst, s.src)
}
func (s copyStmt) run(e *env) bool {
	e.println(s.tag)
	e.arrs[s.dst] = append([]string(nil), e.arrs[s.src]...)
	return true
}

func (s declVar) emit(b *strings.Builder, ind string) {
	fmt.Fprintf(b, "%slet %s: i32 = %d;\n", ind, s.name, s.v)
}
func (s declVar) run(e *env) bool { e.vars[s.name] = s.v; return true }

func (s setVar) emit(b *strings.Builder, ind string) {
	fmt.Fprintf(b, "%sio::Println(\"%s\");\n%s%s = %d;\n", ind, s.tag, ind, s.name, s.v)
}
func (s setVar) run(e *env) bool { e.println(s.tag); e.vars[s.name] = s.v; return true }

func (s reassignStmt) emit(b *strings.Builder, ind string) {
	var vs []string
	for _, v := range s.vals {
		vs = append(vs, v.src)
	}
	fmt.Fprintf(b, "%sio::Println(\"%s\");\n%s%s = [%s];\n", ind, s.tag, ind, s.arr, strings.Join(vs, ", "))
}
func (s reassignStmt) run(e *env) bool {
	e.println(s.tag)
	var vs []string
	for _, v := range s.vals {
		vs = append(vs, v.out)
	}
	e.arrs[s.arr] = vs
	return true
}

func (s ifStmt) emit(b *strings.Builder, ind string) {
	fmt.Fprintf(b, "%sif len(%s) %s %d {\n", ind, s.arr, s.op, s.c)
	for _, t := range s.then {
		t.emit(b, ind+"    ")
	}
	fmt.Fprintf(b, "%s} else {\n", ind)
	for _, t := range s.els {
		t.emit(b, ind+"    ")
	}
	fmt.Fprintf(b, "%s}\n", ind)
}
func (s ifStmt) cond(e *env) bool {
	n := int64(e.length(s.arr))
	switch s.op {
	case ">":
		return n > s.c
	case "<":
		return n < s.c
	default:
		return n == s.c
	}
}
func (s ifStmt) run(e *env) bool {
	body := s.els
	if s.cond(e) {
		body = s.then
	}
	for _, t := range body {
		if !t.run(e) {
			return false
		}
	}
	return true
}

func (s whileStmt) emit(b *strings.Builder, ind string) {
	fmt.Fprintf(b, "%slet %s: i32 = 0;\n%swhile %s < %d {\n", ind, s.v, ind, s.v, s.n)
	for _, t := range s.body {
		t.emit(b, ind+"    ")
	}
	fmt.Fprintf(b, "%s    %s += 1;\n%s}\n", ind, s.v, ind)
}
func (s whileStmt) run(e *env) bool {
	for e.vars[s.v] = 0; e.vars[s.v] < s.n; e.vars[s.v]++ {
		for _, t := range s.body {
			if !t.run(e) {
				return false
			}
		}
	}
	return true
}

func (s declArr) emit(b *strings.Builder, ind string) {
	var vs []string
	for _, v := range s.vals {
		vs = append(vs, v.src)
	}
	if s.typ == "" {
		fmt.Fprintf(b, "%slet %s := [%s];\n", ind, s.name, strings.Join(vs, ", "))
	} else {
		fmt.Fprintf(b, "%slet %s: []%s = [%s];\n", ind, s.name, s.typ, strings.Join(vs, ", "))
	}
}
func (s declArr) run(e *env) bool {
	var vs []string
	for _, v := range s.vals {
		vs = append(vs, v.out)
	}
	e.arrs[s.name] = vs
	return true
}

func (s declStr) emit(b *strings.Builder, ind string) {
	fmt.Fprintf(b, "%slet %s: str = \"%s\";\n", ind, s.name, s.s)
}
func (s declStr) run(e *env) bool { e.strs[s.name] = s.s; return true }

// Program is a generated program with what the list model says about it.
type Program struct {
	Source   string `json:"source"`
	Expected string `json:"expected_stdout"`
	Panics   bool   `json:"panics"`
	OOBKind  string `json:"oob_kind,omitempty"`
	Shape    string `json:"shape"`
	Target   string `json:"target,omitempty"` // "native" (default) or "wasm" (Node + runtime/wasm/runtime.js)
	// probes
	ValidAfterAppend int `json:"valid_after_append"`
	NegReads         int `json:"negative_index_reads"`
	Appends          int `json:"appends"`
	MaxLen           int `json:"max_len"`

	stmts  []stmt
	consts []cst
}

// Stmts returns the number of top-level statements (for shrinking).
func (p *Program) Stmts() int { return len(p.stmts) }

// Subset rebuilds the program from a subset of its top-level statements.
func (p *Program) Subset(keep []int) *Program {
	var top []stmt
	for _, i := range keep {
		top = append(top, p.stmts[i])
	}
	q := Build(top, p.consts)
	q.Shape = p.Shape
	q.Target = p.Target
	return q
}

// gen holds the generator's state: it interprets as it generates so that it
// can steer towards valid accesses (and exactly one invalid one when asked).
type gen struct {
	r      *core.Rng
	e      *env
	tagN   int
	consts []cst
	types  map[string]string
	litLen map[string]int // length at declaration (positions beyond exist only through appends)
	shape  []string
	nApp   int
	bulk   bool // a bulk-output loop has been generated
	noBulk bool // the wasm run time's bump allocator cannot take it
}

func (g *gen) tag() string { g.tagN++; return fmt.Sprintf("t%d", g.tagN) }

func (g *gen) val(typ string) value {
	r := g.r
	switch typ {
	case "", "i32":
		n := int64(r.Intn(2001)) - 1000
		if r.Chance(1, 10) {
			n = core.Pick(r, []int64{2147483647, -2147483647, 0, 1, -1})
		}
		return value{strconv.FormatInt(n, 10), strconv.FormatInt(n, 10)}
	case "i64":
		n := int64(r.Uint64()>>1) % 4000000000000
		if r.Chance(1, 2) {
			n = int64(r.Intn(100000))
		}
		return value{strconv.FormatInt(n, 10), strconv.FormatInt(n, 10)}
	case "u8":
		n := r.Intn(256)
		return value{strconv.Itoa(n), strconv.Itoa(n)}
	case "bool":
		if r.Chance(1, 2) {
			return value{"true", "true"}
		}
		return value{"false", "false"}
	default: // str
		n := 1 + r.Intn(7)
		b := make([]byte, n)
		for i := range b {
			b[i] = byte('a' + r.Intn(26))
		}
		return value{"\"" + string(b) + "\"", string(b)}
	}
}

// index draws an index expression whose value is v.
func (g *gen) index(v int64, x string, loop string) expr {
	r := g.r
	n := int64(g.e.length(x))
	switch r.Intn(7) {
	case 0:
		return opaque{lit(v)}
	case 1:
		for _, c := range g.consts {
			if c.val == v {
				return c
			}
		}
		if len(g.consts) < 6 && v >= -64 && v <= 64 {
			c := cst{fmt.Sprintf("K%d", len(g.consts)), v}
			g.consts = append(g.consts, c)
			return c
		}
		return lit(v)
	case 2:
		if k := n - v; v >= 0 && k >= 1 && k <= n {
			if _, isArr := g.e.arrs[x]; isArr {
				return lenMinus{x, k}
			}
		}
		return lit(v)
	case 3:
		return opaque{opaque{lit(v)}}
	case 4:
		// the same value through an i64, u32 or u64 function
		fn := "idx64"
		if v >= 0 {
			fn = core.Pick(r, []string{"idx64", "idxu32", "idxu64"})
		}
		return wideIdx{fn, strconv.FormatInt(v, 10), v}
	default:
		return lit(v)
	}
}

// invalidWide draws an out-of-range index of a 64-bit or unsigned type whose
// low 32 bits, read as an i32, are a VALID index of x when x is not empty.
func (g *gen) invalidWide(x string) expr {
	r := g.r
	n := int64(g.e.length(x))
	p := int64(0) // a valid position (or 0)
	if n > 0 {
		p = int64(r.Intn(int(n)))
	}
	switch r.Intn(7) {
	case 0:
		v := int64(1)<<32 + p
		return wideIdx{"idx64", strconv.FormatInt(v, 10), v}
	case 1:
		v := -(int64(1) << 32) + p
		return wideIdx{"idx64", strconv.FormatInt(v, 10), v}
	case 2:
		v := int64(1)<<32 - 1 - p // low half = -1 - p
		return wideIdx{"idx64", strconv.FormatInt(v, 10), v}
	case 3:
		v := int64(1)<<32 - 1 - p
		return wideIdx{"idxu32", strconv.FormatInt(v, 10), v}
	case 4:
		v := int64(1)<<32 + p
		return wideIdx{"idxu64", strconv.FormatInt(v, 10), v}
	case 5:
		u := ^uint64(0) - uint64(p) // 2^64 - 1 - p: -1 - p as a signed value
		return wideIdx{"idxu64", strconv.FormatUint(u, 10), 1<<63 - 1}
	default:
		v := int64(1)<<62 + p
		return wideIdx{"idx64", strconv.FormatInt(v, 10), v}
	}
}

// validIndex draws an index that is valid for x now, in one of the two forms.
func (g *gen) validIndex(x string) int64 {
	n := int64(g.e.length(x))
	if sv, isStr := g.e.strs[x]; isStr && !isASCII(sv) {
		// a string with multi-byte characters: lengths and indices count bytes. Only
		// its ASCII bytes are read (a lone byte of a multi-byte character prints
		// differently on the two targets, which is not this property's business);
		// they sit at the end of every such string in the pool.
		var ps []int64
		for i := 0; i < len(sv); i++ {
			if sv[i] < 0x80 {
				ps = append(ps, int64(i))
			}
		}
		p := ps[len(ps)-1-g.r.Intn(min(3, len(ps)))]
		if g.r.Chance(1, 2) {
			return p - n
		}
		return p
	}
	p := int64(g.r.Intn(int(n)))
	// bias to the last positions (the ones appends created) and to position 0
	switch g.r.Intn(4) {
	case 0:
		p = n - 1
	case 1:
		if ll, ok := g.litLen[x]; ok && int64(ll) < n {
			p = int64(ll) + int64(g.r.Intn(int(n)-ll))
		}
	}
	if g.r.Chance(1, 3) {
		return p - n // the negative form of the same position
	}
	return p
}

func isASCII(s string) bool {
	for i := 0; i < len(s); i++ {
		if s[i] >= 0x80 {
			return false
		}
	}
	return true
}

func (g *gen) invalidIndex(x string) int64 {
	n := int64(g.e.length(x))
	switch g.r.Intn(6) {
	case 0:
		return n
	case 1:
		return -n - 1
	case 2:
		return n + int64(g.r.Intn(50)) + 1
	case 3:
		return -n - 1 - int64(g.r.Intn(50))
	case 4:
		return core.Pick(g.r, []int64{2147483647, -2147483647, 1 << 20, -(1 << 20)})
	default:
		if ll, ok := g.litLen[x]; ok {
			return int64(ll) + int64(g.r.Intn(3)) + n - int64(ll) // just past the end
		}
		return n
	}
}

func (g *gen) names() (arrs []string, all []string) {
	for _, n := range core.SortedKeys(g.e.arrs) {
		if strings.HasPrefix(n, "c") {
			continue // scratch targets of array-to-array assignments: used once, never appended to
		}
		arrs = append(arrs, n)
		all = append(all, n)
	}
	for _, n := range core.SortedKeys(g.e.strs) {
		all = append(all, n)
	}
	return
}

// Generate draws one program. wantOOB asks for one out-of-range access at a
// seeded place; otherwise every access is valid.
func Generate(r *core.Rng, maxOps int, wantOOB bool) *Program {
	return GenerateFor(r, maxOps, wantOOB, "native")
}

// GenerateFor is Generate for a target ("wasm": no bulk output, the JS run
// time's bump allocator has 64 KiB in total).
func GenerateFor(r *core.Rng, maxOps int, wantOOB bool, target string) *Program {
	g := &gen{r: r, noBulk: target == "wasm", e: &env{arrs: map[string][]string{}, strs: map[string]string{}, vars: map[string]int64{}}, types: map[string]string{}, litLen: map[string]int{}}
	var top []stmt
	run := func(s stmt) bool { top = append(top, s); return s.run(g.e) }

	// declarations
	na := r.Range(1, 3)
	for i := 0; i < na; i++ {
		name := fmt.Sprintf("a%d", i)
		typ := core.Pick(r, []string{"", "", "i32", "i64", "u8", "bool", "str"})
		n := core.Pick(r, []int{0, 1, 2, 3, 3, 4, 5, 8})
		if typ == "" && n == 0 {
			n = 1 // an empty literal needs a type annotation
		}
		d := declArr{name: name, typ: typ}
		for k := 0; k < n; k++ {
			d.vals = append(d.vals, g.val(typ))
		}
		g.types[name] = typ
		g.litLen[name] = n
		run(d)
		g.shape = append(g.shape, "decl:"+typ)
	}
	if r.Chance(1, 2) {
		// lengths 0, 4 and 8 too: data-segment padding and alignment boundaries
		s := declStr{"s0", core.Pick(r, []string{"Hello", "a", "ferret", "xyzzy plugh", "Zq", "abcd", "12345678", "", "wxyz", "qrs",
			"h\u00e9llo", "\u20acabcdef", "na\u00efve-\U0001F600-xyz", "\u00fc\u00f6q"})}
		run(s)
		g.shape = append(g.shape, "str")
	}
	nops := r.Range(4, maxOps)
	oobAt := -1
	if wantOOB {
		oobAt = r.Intn(nops)
	}
	panicked := false
	loopN := 0
	for k := 0; k < nops && !panicked; k++ {
		arrs, all := g.names()
		if k == oobAt {
			// the one out-of-range access: a read or a write, top level or inside a branch
			x := core.Pick(r, all)
			i := g.invalidIndex(x)
			_, isArr := g.e.arrs[x]
			var s stmt
			ie := g.index(i, x, "")
			wide := ""
			if r.Chance(1, 4) {
				ie = g.invalidWide(x)
				wide = "-wide"
			}
			if isArr && r.Chance(1, 3) {
				s = assignStmt{g.tag(), x, ie, g.val(g.types[x])}
				g.shape = append(g.shape, "oob-write"+wide)
			} else {
				s = printIdx{g.tag(), x, ie}
				g.shape = append(g.shape, "oob-read"+wide)
			}
			if r.Chance(1, 4) && len(arrs) > 0 {
				a := core.Pick(r, arrs)
				n := int64(g.e.length(a))
				s = ifStmt{a, "==", n, []stmt{s}, []stmt{tagStmt{g.tag()}}}
			}
			if !run(s) {
				panicked = true
			}
			continue
		}
		switch x := r.Intn(100); {
		case x < 30: // append
			a := core.Pick(r, arrs)
			g.nApp++
			run(appendStmt{g.tag(), a, g.val(g.types[a])})
			g.shape = append(g.shape, "append")
		case x < 60: // valid read
			v := core.Pick(r, all)
			if g.e.length(v) == 0 {
				run(printLen{g.tag(), v})
				continue
			}
			i := g.validIndex(v)
			p, _ := norm(i, g.e.length(v))
			if ll, ok := g.litLen[v]; ok && p >= ll {
				g.e.validAfterAppend++
			}
			run(printIdx{g.tag(), v, g.index(i, v, "")})
			g.shape = append(g.shape, "read")
		case x < 72: // valid write
			a := core.Pick(r, arrs)
			if g.e.length(a) == 0 {
				continue
			}
			i := g.validIndex(a)
			run(assignStmt{g.tag(), a, g.index(i, a, ""), g.val(g.types[a])})
			run(printIdx{g.tag(), a, g.index(i, a, "")})
			g.shape = append(g.shape, "write")
		case x < 77:
			run(printLen{g.tag(), core.Pick(r, all)})
			g.shape = append(g.shape, "len")
		case x < 79: // re-assign the variable from a fresh literal (a new, usually shorter, length)
			a := core.Pick(r, arrs)
			n := r.Range(1, 4)
			st := reassignStmt{tag: g.tag(), arr: a}
			for k := 0; k < n; k++ {
				st.vals = append(st.vals, g.val(g.types[a]))
			}
			g.litLen[a] = n
			run(st)
			g.shape = append(g.shape, "reassign")
		case x < 81: // an index variable assigned by a closure that runs after a later plain assignment
			a := core.Pick(r, arrs)
			n := int64(g.e.length(a))
			if n == 0 {
				continue
			}
			loopN++
			st := closureIdx{tag: g.tag(), k: fmt.Sprintf("q%d", loopN), v0: int64(r.Intn(int(n))), v1: g.validIndex(a), v2: n + int64(r.Intn(5)), arr: a}
			if r.Chance(1, 3) {
				st.v2 = -n - 1 - int64(r.Intn(3))
			}
			run(st)
			g.shape = append(g.shape, "closure-index")
		case x < 82: // two stores through an array passed by value
			var cands []string
			for _, a := range arrs {
				if (g.types[a] == "" || g.types[a] == "i32") && g.e.length(a) >= 1 {
					cands = append(cands, a)
				}
			}
			if len(cands) == 0 {
				continue
			}
			a := core.Pick(r, cands)
			run(set2Stmt{g.tag(), a, g.validIndex(a), g.validIndex(a), g.val("i32"), g.val("i32")})
			run(printIdx{g.tag(), a, g.index(g.validIndex(a), a, "")})
			g.shape = append(g.shape, "param-stores")
		case x < 83: // an array variable with a known literal length takes over another array of unknown length
			a := core.Pick(r, arrs)
			n := int64(g.e.length(a))
			if n < 2 {
				continue
			}
			loopN++
			cv := fmt.Sprintf("c%d", loopN)
			d := declArr{name: cv, typ: g.types[a]}
			for j := r.Range(1, int(n)-1); j > 0; j-- {
				d.vals = append(d.vals, g.val(g.types[a]))
			}
			g.types[cv] = g.types[a]
			run(d)
			run(copyStmt{g.tag(), cv, a})
			run(printIdx{g.tag(), cv, lit(n - 1)})
			run(printIdx{g.tag(), cv, lit(-n)})
			// (the two names now denote the same array: cv is only read, right here, and never used again)
			g.shape = append(g.shape, "array-copy")
		case x < 85: // a literal re-assignment on one path only, then a read that is valid for what really happened
			a := core.Pick(r, arrs)
			n := int64(g.e.length(a))
			mkLit := func(k int) reassignStmt {
				st := reassignStmt{tag: g.tag(), arr: a}
				for j := 0; j < k; j++ {
					st.vals = append(st.vals, g.val(g.types[a]))
				}
				return st
			}
			s := ifStmt{arr: a, op: core.Pick(r, []string{">", "==", "<"}), c: n + int64(r.Intn(3)) - 1}
			long, short := mkLit(r.Range(3, 6)), mkLit(r.Range(1, 2))
			switch r.Intn(4) {
			case 0: // the path not taken shrinks the array
				if s.cond(g.e) {
					s.then, s.els = []stmt{tagStmt{g.tag()}}, []stmt{short}
				} else {
					s.then, s.els = []stmt{short}, []stmt{tagStmt{g.tag()}}
				}
			case 1: // the path taken grows it, the other one shrinks it
				if s.cond(g.e) {
					s.then, s.els = []stmt{long}, []stmt{short}
				} else {
					s.then, s.els = []stmt{short}, []stmt{long}
				}
			case 2: // the path taken grows it, the other does nothing
				if s.cond(g.e) {
					s.then, s.els = []stmt{long}, []stmt{tagStmt{g.tag()}}
				} else {
					s.then, s.els = []stmt{tagStmt{g.tag()}}, []stmt{long}
				}
			default: // both shrink: the read after it must still be checked at run time
				s.then, s.els = []stmt{mkLit(r.Range(1, 2))}, []stmt{short}
			}
			run(s)
			g.litLen[a] = g.e.length(a)
			if g.e.length(a) > 0 {
				run(printIdx{g.tag(), a, g.index(int64(g.e.length(a))-1, a, "")})
				run(printIdx{g.tag(), a, lit(-int64(g.e.length(a)))})
			}
			g.shape = append(g.shape, "if-reassign")
		case x < 88: // an index variable that is a constant until one path assigns it
			a := core.Pick(r, arrs)
			n := int64(g.e.length(a))
			if n == 0 {
				continue
			}
			loopN++
			kv := fmt.Sprintf("k%d", loopN)
			run(declVar{kv, int64(r.Intn(int(n)))})
			s := ifStmt{arr: a, op: core.Pick(r, []string{">", "==", "<"}), c: n + int64(r.Intn(3)) - 1}
			good := setVar{g.tag(), kv, g.validIndex(a)}
			bad := setVar{g.tag(), kv, n + int64(r.Intn(4))}
			if r.Chance(1, 2) {
				bad.v = -n - 1 - int64(r.Intn(3))
			}
			other := []stmt{bad}
			if r.Chance(1, 3) {
				other = []stmt{tagStmt{g.tag()}}
			}
			if s.cond(g.e) {
				s.then, s.els = []stmt{good}, other
			} else {
				s.then, s.els = other, []stmt{good}
			}
			run(s)
			run(printIdx{g.tag(), a, varRef{kv}})
			if r.Chance(1, 2) {
				run(assignStmt{g.tag(), a, varRef{kv}, g.val(g.types[a])})
				run(printIdx{g.tag(), a, varRef{kv}})
			}
			g.shape = append(g.shape, "if-index-var")
		case x < 91: // branch on the current length
			a := core.Pick(r, arrs)
			n := int64(g.e.length(a))
			op := core.Pick(r, []string{">", "==", "<"})
			c := n + int64(r.Intn(3)) - 1
			s := ifStmt{arr: a, op: op, c: c}
			taken := s.cond(g.e)
			mk := func(live bool) []stmt {
				var out []stmt
				if live {
					out = append(out, appendStmt{g.tag(), a, g.val(g.types[a])})
					// position n exists only inside this branch, after this append
					out = append(out, printIdx{g.tag(), a, g.index(n, a, "")})
				} else {
					out = append(out, tagStmt{g.tag()}, appendStmt{g.tag(), a, g.val(g.types[a])})
				}
				return out
			}
			s.then, s.els = mk(taken), mk(!taken)
			g.nApp++
			g.e.validAfterAppend++
			run(s)
			g.shape = append(g.shape, "if")
		default: // loop: appends and reads indexed by the counter
			a := core.Pick(r, arrs)
			n := int64(g.e.length(a))
			loopN++
			v := fmt.Sprintf("i%d", loopN)
			it := int64(r.Range(1, 6))
			w := whileStmt{v: v, n: it}
			switch r.Intn(6) {
			case 5: // a read that only runs in a later iteration, after the re-assignment below it grew the array
				L := int(n) + r.Range(1, 3)
				st := reassignStmt{tag: g.tag(), arr: a}
				for j := 0; j < L; j++ {
					st.vals = append(st.vals, g.val(g.types[a]))
				}
				if it < 2 {
					w.n = 2
				}
				w.body = []stmt{
					ifStmt{a, ">", n, []stmt{printIdx{g.tag(), a, lit(int64(L) - 1)}, printIdx{g.tag(), a, lit(-int64(L))}}, []stmt{tagStmt{g.tag()}}},
					st,
				}
				g.litLen[a] = L
			case 3: // read a string byte by byte with the counter (and from the end)
				if sv, ok := g.e.strs["s0"]; ok && len(sv) > 0 && isASCII(sv) {
					w.n = int64(len(sv))
					w.body = []stmt{printIdx{g.tag(), "s0", loopVar{v}}, printIdx{g.tag(), "s0", negLoop{v}}}
				} else {
					w.body = []stmt{tagStmt{g.tag()}}
				}
			case 4: // bulk output: more than a stdio buffer (4 KiB pipes, 64 KiB pipes) before whatever comes next
				if g.bulk || g.noBulk {
					w.body = []stmt{tagStmt{g.tag()}}
					break
				}
				g.bulk = true
				w.n = int64(core.Pick(r, []int{300, 700, 2500, 9000}))
				if n > 0 {
					w.body = []stmt{tagStmt{g.tag()}, printIdx{g.tag(), a, lit(0)}}
				} else {
					w.body = []stmt{tagStmt{g.tag()}, tagStmt{g.tag()}}
				}
			case 0: // grow, then read the element just appended by position n+i
				w.body = []stmt{appendStmt{g.tag(), a, g.val(g.types[a])}, printIdx{g.tag(), a, lenMinus{a, 1}}, printIdx{g.tag(), a, negLoop{v}}}
				g.nApp += int(it)
				g.e.validAfterAppend += int(it)
			case 1: // read the first min(n, it) elements by the counter
				if n < it {
					w.n = n
				}
				w.body = []stmt{printIdx{g.tag(), a, loopVar{v}}}
				if n == 0 {
					w.body = []stmt{tagStmt{g.tag()}}
				}
			default: // a read that is textually before the append that makes later iterations valid
				w.body = []stmt{
					ifStmt{a, ">", n, []stmt{printIdx{g.tag(), a, g.index(n, a, "")}}, []stmt{tagStmt{g.tag()}}},
					appendStmt{g.tag(), a, g.val(g.types[a])},
				}
				g.nApp += int(it)
				if it > 1 {
					g.e.validAfterAppend += int(it) - 1
				}
			}
			run(w)
			g.shape = append(g.shape, "loop")
		}
	}

	// final dump: every element of every array by its position, so that a write
	// that landed in the wrong slot shows even if that slot was never read back
	if !panicked {
		arrs, _ := g.names()
		for _, a := range arrs {
			n := int64(g.e.length(a))
			if n == 0 || n > 64 {
				continue
			}
			loopN++
			v := fmt.Sprintf("i%d", loopN)
			run(whileStmt{v: v, n: n, body: []stmt{printIdx{g.tag(), a, loopVar{v}}}})
		}
	}

	p := Build(top, g.consts)
	p.Shape = strings.Join(collapse(g.shape), ",")
	p.ValidAfterAppend = g.e.validAfterAppend
	p.Appends = g.nApp
	return p
}

// Build renders statements to source text and runs the list model over them.
func Build(top []stmt, consts []cst) *Program {
	e := &env{arrs: map[string][]string{}, strs: map[string]string{}, vars: map[string]int64{}}
	panicked := false
	for _, s := range top {
		if !s.run(e) {
			panicked = true
			break
		}
	}
	var b strings.Builder
	b.WriteString("import \"std/io\";\n\nfn idx(n: i32) -> i32 {\n    return n;\n}\n\n")
	var body strings.Builder
	for _, s := range top {
		s.emit(&body, "    ")
	}
	if strings.Contains(body.String(), "set2(") {
		b.WriteString("fn set2(a: []i32, i: i32, v: i32, j: i32, w: i32) {\n    a[i] = v;\n    a[j] = w;\n}\n\n")
	}
	for _, f := range [][2]string{{"idx64", "i64"}, {"idxu32", "u32"}, {"idxu64", "u64"}} {
		if strings.Contains(body.String(), f[0]+"(") {
			fmt.Fprintf(&b, "fn %s(n: %s) -> %s {\n    return n;\n}\n\n", f[0], f[1], f[1])
		}
	}
	b.WriteString("fn main() {\n")
	for _, c := range consts {
		fmt.Fprintf(&b, "    const %s: i32 = %d;\n", c.name, c.val)
	}
	b.WriteString(body.String())
	if !panicked {
		b.WriteString("    io::Println(\"done\");\n")
		e.println("done")
	}
	b.WriteString("}\n")
	maxLen := 0
	for _, a := range e.arrs {
		if len(a) > maxLen {
			maxLen = len(a)
		}
	}
	return &Program{Source: b.String(), Expected: e.out.String(), Panics: panicked, OOBKind: e.oobKind,
		NegReads: e.negReads, MaxLen: maxLen, stmts: top, consts: consts}
}

func collapse(xs []string) []string {
	var out []string
	for _, x := range xs {
		if len(out) == 0 || out[len(out)-1] != x {
			out = append(out, x)
		}
	}
	return out
}
