package iosim

import (
	"encoding/json"
	"fmt"
	"os"
	"path/filepath"
	"regexp"
	"sort"
	"strings"
	"sync"
	"time"

	"verif/internal/core"
	"verif/internal/schedsim"
)

type Issue struct {
	Class  string `json:"class"`
	Detail string `json:"detail"`
}

var ansiRe = regexp.MustCompile(`\x1b\[[0-9;]*[A-Za-z]`)
var codeRe = regexp.MustCompile(`error\[([A-Z][0-9]+)\]`)
var assertRe = regexp.MustCompile(`([a-z0-9_]+\.c):[0-9]+: (\w+): Assertion [^\n]*failed`)
var panicMsgRe = regexp.MustCompile(`(panic|Error): index out of bounds\n`)
var quotedRe = regexp.MustCompile(`'[^']*'|"[^"]*"`)
var numRe = regexp.MustCompile(`[0-9]+`)

// compile builds prog with the plain compiler; returns the executable path or the diagnostics.
func compile(b *schedsim.Build, dir string, src string, target string) (exe string, diag string, err error) {
	pd := filepath.Join(dir, "q")
	os.MkdirAll(pd, 0755)
	if err := os.WriteFile(filepath.Join(pd, "main.fer"), []byte(src), 0644); err != nil {
		return "", "", err
	}
	exe = filepath.Join(dir, "out", "app")
	env := append(os.Environ(), "FERRET_LIBS_PATH="+b.Libs, "AS=", "LD=", "FERRET_AS=", "FERRET_LD=")
	args := []string{"-o", exe, filepath.Join(pd, "main.fer")}
	if target == "wasm" {
		args = append([]string{"-target", "wasm"}, args...)
		exe += ".wasm"
	}
	pr := core.RunProc(120*time.Second, dir, env, nil, b.Plain, args...)
	out := ansiRe.ReplaceAllString(string(pr.Stderr)+string(pr.Stdout), "")
	if pr.TimedOut {
		return "", out, fmt.Errorf("compiler timed out")
	}
	if pr.ExitCode != 0 || pr.Signal != "" {
		return "", out, nil
	}
	if _, e := os.Stat(exe); e != nil {
		return "", out, nil
	}
	return exe, out, nil
}

// judgeCompile classifies a compile failure.
func judgeCompile(p *Program, diag string) []Issue {
	bounds := strings.Contains(diag, "out of bounds") || strings.Contains(diag, "T0009")
	if p.Panics && bounds {
		return nil // an access that is out of range in every execution may be refused statically
	}
	if m := assertRe.FindStringSubmatch(diag); m != nil {
		return []Issue{{"compiler-crash:qbe-assert:" + m[1] + ":" + m[2], "the compiler aborted on a workload program: " + strings.TrimSpace(m[0])}}
	}
	if strings.Contains(diag, "panic: ") || strings.Contains(diag, "SIGSEGV") || strings.Contains(diag, "fatal error: ") {
		return []Issue{{"compiler-crash:go-runtime", "the compiler crashed on a workload program: " + trunc(diag, 300)}}
	}
	first := ""
	for _, l := range strings.Split(diag, "\n") {
		if strings.HasPrefix(strings.TrimSpace(l), "error") {
			first = strings.TrimSpace(l)
			break
		}
	}
	code := ""
	if m := codeRe.FindStringSubmatch(first); m != nil {
		code = m[1]
	} else {
		// no code: classify by the message with quoted names and numbers removed
		msg := first
		if i := strings.Index(msg, ":"); i >= 0 {
			msg = msg[i+1:]
		}
		msg = quotedRe.ReplaceAllString(msg, "")
		msg = numRe.ReplaceAllString(msg, "")
		code = sanitize(strings.Join(strings.Fields(msg), "-"))
		if len(code) > 40 {
			code = code[:40]
		}
		if code == "" {
			code = "no-diagnostic"
		}
	}
	if bounds {
		return []Issue{{"mis-rejected:bounds", "every access of the program is valid for the array's current length, yet the compiler refused it: " + first}}
	}
	return []Issue{{"mis-rejected:" + code, "a program of the workload grammar was refused: " + first}}
}

// judgeExec applies the oracle to one execution.
func judgeExec(p *Program, s Sink, x *Exec) []Issue {
	var is []Issue
	add := func(cls, f string, a ...any) { is = append(is, Issue{cls, fmt.Sprintf(f, a...)}) }
	if x.TimedOut {
		add("hang:"+s.Stdout, "the program did not end within the time limit under sink %s", s)
		return is
	}
	failed := x.ExitCode != 0 || x.Signal != ""
	out := x.Stdout
	panicLine := "index out of bounds"
	if x.Merged && p.Target == "wasm" && p.Panics {
		// Node prints a multi-line report of the uncaught error (source line, caret,
		// stack) after the program's own output: everything from the expected text on
		// is that report
		if strings.HasPrefix(out, p.Expected) {
			x.Stderr += out[len(p.Expected):]
			out = p.Expected
		}
	} else if x.Merged {
		// stderr shares the descriptor: take the panic message out of the stream. It
		// may sit in the middle of a stdout line (stdout is block-buffered and is
		// flushed in 4 KiB pieces, stderr is written at once): that interleaving is a
		// property of sharing a descriptor, not of the program.
		if loc := panicMsgRe.FindStringIndex(out); loc != nil {
			x.Stderr += out[loc[0]:loc[1]]
			out = out[:loc[0]] + out[loc[1]:]
		}
	}
	if s.Healthy() {
		if out != p.Expected {
			switch {
			case p.Panics && strings.HasPrefix(p.Expected, out):
				add("output-lost-before-panic:"+s.Stdout, "sink %s: lines printed before the panic were not delivered: got %d of %d bytes", s, len(out), len(p.Expected))
			case strings.HasPrefix(out, p.Expected) && p.Panics:
				add("no-panic-on-out-of-range-"+p.OOBKind, "sink %s: the program went on after an out-of-range %s: extra output %q", s, p.OOBKind, trunc(out[len(p.Expected):], 80))
			default:
				add("wrong-output", "sink %s: %s", s, firstDiff(p.Expected, out))
			}
		}
		if p.Panics {
			if !failed {
				add("exit-0-after-out-of-range-"+p.OOBKind, "sink %s: out-of-range %s but exit status 0", s, p.OOBKind)
			} else if !strings.Contains(x.Stderr, panicLine) {
				add("no-panic-message", "sink %s: the program failed (exit %d signal %q) without the index-out-of-bounds message; stderr %q", s, x.ExitCode, x.Signal, trunc(x.Stderr, 120))
			}
		} else {
			if failed {
				add("valid-program-failed", "sink %s: every access is valid but the program ended with exit %d signal %q; stderr %q", s, x.ExitCode, x.Signal, trunc(x.Stderr, 120))
			}
		}
		return is
	}
	// broken sinks: narrow relaxation
	if !strings.HasPrefix(p.Expected, out) {
		add("wrong-output-on-broken-sink", "sink %s: delivered output is not a prefix of the expected text: %s", s, firstDiff(p.Expected, out))
	}
	if s.Stdout == "devfull" && p.Panics && !failed {
		add("exit-0-after-out-of-range-"+p.OOBKind, "sink %s: out-of-range %s but exit status 0", s, p.OOBKind)
	}
	return is
}

func trunc(s string, n int) string {
	if len(s) > n {
		return s[:n] + "…"
	}
	return s
}

func firstDiff(want, got string) string {
	lw, lg := strings.Split(want, "\n"), strings.Split(got, "\n")
	for i := 0; i < len(lw) || i < len(lg); i++ {
		var a, b string
		if i < len(lw) {
			a = lw[i]
		}
		if i < len(lg) {
			b = lg[i]
		}
		if a != b {
			return fmt.Sprintf("line %d: the list model says %q, the program printed %q", i+1, trunc(a, 60), trunc(b, 60))
		}
	}
	return "equal"
}

// Replay is the replay file of engine C.
type Replay struct {
	Property string   `json:"property"`
	Class    string   `json:"class"`
	Detail   string   `json:"detail"`
	Seed     uint64   `json:"seed"`
	Program  Program  `json:"program"`
	Sink     *Sink    `json:"sink,omitempty"` // nil: the violation is a compile-time refusal
	Steps    []string `json:"shrink_log"`
}

var loaderOnce sync.Once
var loaderPath string
var loaderErr error

// wasmLoader installs /repo's runtime/wasm/runtime.js (as an ES module) and a
// minimal Node loader next to it in the scratch directory.
func wasmLoader(b *schedsim.Build) (string, error) {
	loaderOnce.Do(func() {
		dir := filepath.Join(b.S.Dir, "wasmrt")
		os.MkdirAll(dir, 0755)
		rt, err := os.ReadFile(filepath.Join(core.RepoDir, "runtime", "wasm", "runtime.js"))
		if err != nil {
			loaderErr = err
			return
		}
		if err := os.WriteFile(filepath.Join(dir, "runtime.mjs"), rt, 0644); err != nil {
			loaderErr = err
			return
		}
		loader := "import fs from \"node:fs\";\nimport { createFerretRuntime } from \"./runtime.mjs\";\nconst rt = createFerretRuntime();\nconst bytes = fs.readFileSync(process.argv[2]);\nconst { instance } = await WebAssembly.instantiate(bytes, rt.imports);\nrt.bind(instance);\ninstance.exports.main();\n"
		loaderPath = filepath.Join(dir, "run.mjs")
		loaderErr = os.WriteFile(loaderPath, []byte(loader), 0644)
	})
	return loaderPath, loaderErr
}

// judgeOne compiles p and runs it under the sinks; issues are returned per sink (index -1: compile).
func judgeOne(b *schedsim.Build, p *Program, sinks []Sink) (map[int][]Issue, error) {
	target := p.Target
	if target == "" {
		target = "native"
	}
	dir, err := os.MkdirTemp(b.S.Dir, "io")
	if err != nil {
		return nil, err
	}
	defer os.RemoveAll(dir)
	res := map[int][]Issue{}
	exe, diag, err := compile(b, dir, p.Source, target)
	if err != nil {
		return nil, err
	}
	if exe == "" {
		if target == "wasm" && (strings.Contains(diag, "wasm: unsupported") || strings.Contains(diag, "wasm codegen failed") || strings.Contains(diag, "wasm:")) && !strings.Contains(diag, "out of bounds") {
			// a construct the wasm back end does not implement: a limitation of that
			// target (C02's territory), not a bounds mis-rejection
			res[-2] = nil
			return res, nil
		}
		res[-1] = judgeCompile(p, diag)
		return res, nil
	}
	argv := []string{exe}
	if target == "wasm" {
		loader, err := wasmLoader(b)
		if err != nil {
			return nil, err
		}
		argv = []string{"node", loader, exe}
	}
	for i, s := range sinks {
		x, err := RunUnder(argv, s, dir, 90*time.Second)
		if err != nil {
			return nil, fmt.Errorf("sink %s: %w", s, err)
		}
		if is := judgeExec(p, s, x); len(is) > 0 {
			res[i] = is
		}
	}
	return res, nil
}

func classIn(res map[int][]Issue, cls string) (int, *Issue) {
	keys := make([]int, 0, len(res))
	for k := range res {
		keys = append(keys, k)
	}
	sort.Ints(keys)
	for _, k := range keys {
		for i := range res[k] {
			if res[k][i].Class == cls {
				return k, &res[k][i]
			}
		}
	}
	return 0, nil
}

func shrink(b *schedsim.Build, p *Program, sink *Sink, cls string, budget int) (*Program, []string) {
	evals := 0
	var sinks []Sink
	if sink != nil {
		sinks = []Sink{*sink}
	}
	test := func(keep []int) bool {
		if evals >= budget {
			return false
		}
		evals++
		q := p.Subset(keep)
		res, err := judgeOne(b, q, sinks)
		if err != nil {
			return false
		}
		_, is := classIn(res, cls)
		return is != nil
	}
	keep := make([]int, p.Stmts())
	for i := range keep {
		keep[i] = i
	}
	n := 2
	for len(keep) >= 2 {
		chunk := (len(keep) + n - 1) / n
		reduced := false
		for s := 0; s < len(keep); s += chunk {
			e := s + chunk
			if e > len(keep) {
				e = len(keep)
			}
			cand := append(append([]int{}, keep[:s]...), keep[e:]...)
			if len(cand) > 0 && test(cand) {
				keep = cand
				if n > 2 {
					n--
				}
				reduced = true
				break
			}
		}
		if !reduced {
			if n >= len(keep) {
				break
			}
			n *= 2
			if n > len(keep) {
				n = len(keep)
			}
		}
	}
	q := p.Subset(keep)
	return q, []string{fmt.Sprintf("%d -> %d top-level statements, %d evaluations", p.Stmts(), len(keep), evals)}
}

func ReplayFile(path string) int {
	data, err := os.ReadFile(path)
	if err != nil {
		fmt.Fprintln(os.Stderr, "replay:", err)
		return 2
	}
	var rep Replay
	if err := json.Unmarshal(data, &rep); err != nil {
		fmt.Fprintln(os.Stderr, "replay:", err)
		return 2
	}
	b, err := schedsim.PrepareOpt("replay", true, false)
	if err != nil {
		fmt.Fprintln(os.Stderr, "replay: build failed:", err)
		if b != nil {
			b.Close()
		}
		return 2
	}
	defer b.Close()
	var sinks []Sink
	if rep.Sink != nil {
		sinks = []Sink{*rep.Sink}
	}
	res, err := judgeOne(b, &rep.Program, sinks)
	if err != nil {
		fmt.Fprintln(os.Stderr, "replay: harness trouble:", err)
		return 2
	}
	for _, is := range res {
		for _, i := range is {
			fmt.Printf("issue: %s — %s\n", i.Class, i.Detail)
		}
	}
	if _, is := classIn(res, rep.Class); is != nil {
		fmt.Printf("VIOLATION property=%s replay=%s\n", rep.Property, path)
		return 1
	}
	fmt.Printf("replay: violation class %q did not reproduce\n", rep.Class)
	return 0
}

func CheckC08(tier string, seed uint64) int {
	t0 := time.Now()
	b, err := schedsim.PrepareOpt("c08", true, false)
	if err != nil {
		fmt.Fprintln(os.Stderr, "C08: build failed:", err)
		if b != nil {
			b.Close()
		}
		return 2
	}
	defer b.Close()
	fmt.Printf("C08: compiler and runtime built in %.0fs\n", b.BuildSec)
	findings, err := core.LoadFindings()
	if err != nil {
		fmt.Fprintln(os.Stderr, "C08:", err)
		return 2
	}
	nProg, maxOps, allSinks := 220, 24, false
	if tier == "thorough" {
		nProg, maxOps, allSinks = 3000, 40, true
	}
	progs := make([]*Program, nProg)
	sinks := make([][]Sink, nProg)
	wasmEvery := 4
	if tier == "thorough" {
		wasmEvery = 3
	}
	for i := range progs {
		r := core.Sub(seed, "c08", i)
		target := "native"
		if i%wasmEvery == wasmEvery-1 {
			target = "wasm"
		}
		progs[i] = GenerateFor(r, maxOps, i%5 < 2, target)
		sinks[i] = Sinks(core.Sub(seed, "c08", "sinks", i), allSinks)
		if target == "wasm" {
			// second configuration: the .wasm under Node with runtime/wasm/runtime.js
			progs[i].Target = "wasm"
			if !allSinks {
				sinks[i] = sinks[i][:4]
			}
		}
	}
	type found struct {
		p     *Program
		sink  *Sink
		issue Issue
		count int
	}
	var mu sync.Mutex
	classes := map[string]*found{}
	var trouble []string
	var execs, compiledOK, refusedStatically, panicsRun, broken, wasmProgs, wasmUnsupported, wasmExecs int
	sinkRuns := map[string]int{}
	core.ParallelDo(nProg, func(i int) {
		res, err := judgeOne(b, progs[i], sinks[i])
		mu.Lock()
		defer mu.Unlock()
		if err != nil {
			if len(trouble) < 10 {
				trouble = append(trouble, err.Error())
			}
			return
		}
		isWasm := progs[i].Target == "wasm"
		if isWasm {
			wasmProgs++
		}
		if _, unsupported := res[-2]; unsupported {
			wasmUnsupported++
			return
		}
		_, compileFailed := res[-1]
		if !compileFailed {
			compiledOK++
		}
		for k, is := range res {
			for _, x := range is {
				f := classes[x.Class]
				if f == nil {
					f = &found{p: progs[i], issue: x}
					if k >= 0 {
						s := sinks[i][k]
						f.sink = &s
					}
					classes[x.Class] = f
				}
				f.count++
			}
		}
		if !compileFailed {
			execs += len(sinks[i])
			if isWasm {
				wasmExecs += len(sinks[i])
			}
			for _, s := range sinks[i] {
				sinkRuns[s.Stdout+"/"+s.Stderr]++
				if !s.Healthy() {
					broken++
				}
			}
			if progs[i].Panics {
				panicsRun++
			}
		}
	})
	exit, violations := 0, 0
	known := map[string]int{}
	names := make([]string, 0, len(classes))
	for c := range classes {
		names = append(names, c)
	}
	sort.Strings(names)
	for _, cls := range names {
		f := classes[cls]
		if kf := findings.Match("C08", cls); kf != nil {
			known[cls] = f.count
			fmt.Printf("KNOWN-FINDING: property=C08 %s [%s] (%d executions)\n", kf.What, cls, f.count)
			continue
		}
		var ss []Sink
		if f.sink != nil {
			ss = []Sink{*f.sink}
		}
		res, err := judgeOne(b, f.p, ss)
		// the readers of the slow sinks are real goroutines: what a defective
		// program loses under them can depend on timing, so try a few times
		for try := 0; try < 6 && err == nil; try++ {
			if _, is := classIn(res, cls); is != nil {
				break
			}
			res, err = judgeOne(b, f.p, ss)
		}
		if err != nil {
			trouble = append(trouble, err.Error())
			continue
		}
		if _, is := classIn(res, cls); is == nil {
			trouble = append(trouble, fmt.Sprintf("issue %q did not reproduce on re-execution", cls))
			continue
		}
		budget := 60
		if tier == "thorough" {
			budget = 300
		}
		q, log := shrink(b, f.p, f.sink, cls, budget)
		detail := f.issue.Detail
		if res, err := judgeOne(b, q, ss); err == nil {
			if _, is := classIn(res, cls); is != nil {
				detail = is.Detail
			} else {
				q = f.p
				log = append(log, "minimised program did not reproduce; original kept")
			}
		}
		rep := Replay{Property: "C08", Class: cls, Detail: detail, Seed: seed, Program: *q, Sink: f.sink, Steps: log}
		path := filepath.Join(core.VerifDir(), "replays", "C08-"+sanitize(cls)+".json")
		if err := core.WriteJSON(path, rep); err != nil {
			trouble = append(trouble, err.Error())
			continue
		}
		violations++
		exit = 1
		fmt.Printf("VIOLATION property=C08 replay=%s\n  class: %s\n  detail: %s\n  seen in %d executions; %s\n", path, cls, detail, f.count, strings.Join(log, "; "))
	}
	if len(trouble) > 0 {
		for _, t := range trouble {
			fmt.Fprintln(os.Stderr, "HARNESS-TROUBLE:", t)
		}
		if exit == 0 {
			exit = 2
		}
	}
	shapes := map[string]bool{}
	var vaa, neg, apps, maxLen, withOOB int
	for i, p := range progs {
		for _, s := range sinks[i] {
			shapes[p.Shape+"|"+s.Stdout+"/"+s.Stderr] = true
		}
		vaa += p.ValidAfterAppend
		neg += p.NegReads
		apps += p.Appends
		if p.MaxLen > maxLen {
			maxLen = p.MaxLen
		}
		if p.Panics {
			withOOB++
		}
	}
	refusedStatically = nProg - compiledOK - wasmUnsupported
	cls := map[string]int{}
	for c, f := range classes {
		cls[c] = f.count
	}
	wall := time.Since(t0).Seconds()
	ev := &core.Evidence{
		PropertyID: "C08", Tier: tier, Seed: int64(seed), Level: "exploration",
		Coverage: map[string]any{
			"evaluations":         execs + refusedStatically,
			"distinct_nontrivial": len(shapes),
			"rule": "one evaluation = one execution of a compiled generated program (seeded history of literal construction, append, element assignment, indexing and len over []i32/[]i64/[]u8/[]bool/[]str and strings; literal, negative, const, opaque, i64/u32/u64, variable, loop-carried and len-relative indices; re-assignments on one path, in loops, from other arrays, through closures and by-value parameters) under one simulated stdio sink, or one compile-time refusal; " +
				"the list model gives the exact expected stdout and whether and where the program must stop. distinct_nontrivial = distinct (history shape, sink) pairs",
			"samples":                                 []any{map[string]any{"source": progs[0].Source, "expected_stdout": progs[0].Expected, "panics": progs[0].Panics, "sinks": sinks[0]}, map[string]any{"source": progs[1].Source, "expected_stdout": progs[1].Expected, "panics": progs[1].Panics}},
			"programs":                                nProg,
			"programs_with_out_of_range_access":       withOOB,
			"programs_compiled":                       compiledOK,
			"wasm_configuration":                      map[string]int{"programs": wasmProgs, "refused_as_unsupported_by_the_wasm_back_end": wasmUnsupported, "executions_under_node": wasmExecs},
			"programs_refused_or_failed_at_compile":   refusedStatically,
			"executions":                              execs,
			"executions_of_panicking_programs":        panicsRun,
			"executions_by_sink":                      sinkRuns,
			"fault_kinds":                             map[string]any{"broken_sink_executions": broken, "kinds": "reader closes after k bytes (EPIPE/SIGPIPE), /dev/full (ENOSPC), 4 KiB pipe drained in seeded chunk sizes, 4 KiB pipe whose reader only reads when the writer has stalled (pipe full at the panic), panic (abort) with buffered output in flight"},
			"probe_valid_reads_of_appended_positions": vaa,
			"probe_negative_index_reads":              neg,
			"probe_appends":                           apps,
			"probe_max_array_length":                  maxLen,
			"programs_per_hour":                       int(float64(nProg) / wall * 3600),
			"violation_classes":                       cls,
			"known_findings_hit":                      known,
			"real_components":                         "compiler (unrewritten, built from /repo), embedded QBE, bundled as/ld, runtime library built from /repo/runtime, kernel pipes, ptys and files",
			"stubbed_components":                      "the reader side of the program's standard streams (simulated sinks)",
			"build_seconds":                           b.BuildSec,
		},
		Assumptions: []string{
			"the list model's semantics are the documented ones: negative index i designates i+len, valid iff -len <= i < len; append grows the array by one",
			"an access that is out of range in every execution may be refused at compile time with the bounds diagnostic; any other refusal of a workload program is a violation",
			"on broken sinks only a prefix of the expected stdout can be demanded; the process must still end",
			"a fraction of the programs is compiled with -target wasm and executed under Node 20 with /repo/runtime/wasm/runtime.js; programs the wasm back end refuses as unsupported are counted, not judged",
		},
		WallS: wall, Violations: violations,
	}
	if err := core.WriteEvidence(ev); err != nil {
		fmt.Fprintln(os.Stderr, "C08: evidence:", err)
		return 2
	}
	fmt.Printf("C08 %s: %d programs (%d with an out-of-range access), %d executions, %d (shape,sink) classes, %d classes of issue, %.0fs\n", tier, nProg, withOOB, execs, len(shapes), len(classes), wall)
	return exit
}

func sanitize(s string) string {
	var b strings.Builder
	for _, c := range s {
		if c >= 'a' && c <= 'z' || c >= 'A' && c <= 'Z' || c >= '0' && c <= '9' || c == '-' || c == '_' {
			b.WriteRune(c)
		} else {
			b.WriteByte('_')
		}
	}
	return b.String()
}
