package iosim

import (
	"bytes"
	"context"
	"fmt"
	"io"
	"os"
	"os/exec"
	"strings"
	"sync"
	"syscall"
	"time"
	"unsafe"

	"verif/internal/core"
)

// Sink describes the simulated stdio environment of one execution.
type Sink struct {
	Stdout string `json:"stdout"`                // pty | pipe | pipe-slow | pipe-lazy | file | pipe-close | devfull
	Stderr string `json:"stderr"`                // pipe | file | same
	Chunks []int  `json:"chunks,omitempty"`      // pipe-slow: read sizes (cycled)
	CloseK int    `json:"close_after,omitempty"` // pipe-close: bytes read before the reader goes away
}

func (s Sink) String() string {
	x := s.Stdout
	if s.Stdout == "pipe-close" {
		x += fmt.Sprintf("(%d)", s.CloseK)
	}
	return x + "/" + s.Stderr
}

func (s Sink) Healthy() bool { return s.Stdout != "pipe-close" && s.Stdout != "devfull" }

// Exec is the observable outcome of one execution.
type Exec struct {
	Stdout   string
	Stderr   string
	Merged   bool // stderr went to the same descriptor as stdout
	ExitCode int
	Signal   string
	TimedOut bool
}

func openPty() (master, slave *os.File, err error) {
	master, err = os.OpenFile("/dev/ptmx", os.O_RDWR|syscall.O_NOCTTY, 0)
	if err != nil {
		return nil, nil, err
	}
	var unlock int32
	if _, _, e := syscall.Syscall(syscall.SYS_IOCTL, master.Fd(), syscall.TIOCSPTLCK, uintptr(unsafe.Pointer(&unlock))); e != 0 {
		master.Close()
		return nil, nil, e
	}
	var n uint32
	if _, _, e := syscall.Syscall(syscall.SYS_IOCTL, master.Fd(), syscall.TIOCGPTN, uintptr(unsafe.Pointer(&n))); e != 0 {
		master.Close()
		return nil, nil, e
	}
	slave, err = os.OpenFile(fmt.Sprintf("/dev/pts/%d", n), os.O_RDWR|syscall.O_NOCTTY, 0)
	if err != nil {
		master.Close()
		return nil, nil, err
	}
	return master, slave, nil
}

// RunUnder executes exe with the given sink.
func RunUnder(argv []string, sink Sink, dir string, timeout time.Duration) (*Exec, error) {
	ctx, cancel := context.WithTimeout(context.Background(), timeout)
	defer cancel()
	cmd := exec.CommandContext(ctx, argv[0], argv[1:]...)
	cmd.Dir = dir
	cmd.Env = append(os.Environ(), "LC_ALL=C")
	res := &Exec{}
	var wg sync.WaitGroup
	var outBuf, errBuf bytes.Buffer
	var closers []io.Closer
	var after []func()
	exited := make(chan struct{})

	switch sink.Stdout {
	case "pty":
		m, s, err := openPty()
		if err != nil {
			return nil, fmt.Errorf("pty: %w", err)
		}
		cmd.Stdout = s
		closers = append(closers, s)
		wg.Add(1)
		go func() {
			defer wg.Done()
			io.Copy(&outBuf, m) // ends with EIO once the slave side is closed
			m.Close()
		}()
	case "file":
		f, err := os.CreateTemp(dir, "stdout-*")
		if err != nil {
			return nil, err
		}
		cmd.Stdout = f
		after = append(after, func() {
			f.Close()
			data, _ := os.ReadFile(f.Name())
			outBuf.Write(data)
			os.Remove(f.Name())
		})
	case "devfull":
		f, err := os.OpenFile("/dev/full", os.O_WRONLY, 0)
		if err != nil {
			return nil, err
		}
		cmd.Stdout = f
		closers = append(closers, f)
	case "pipe", "pipe-slow", "pipe-lazy", "pipe-close":
		r, w, err := os.Pipe()
		if err != nil {
			return nil, err
		}
		if sink.Stdout != "pipe" {
			// a small pipe: the writer blocks as soon as 4 KiB are in flight
			syscall.Syscall(syscall.SYS_FCNTL, w.Fd(), 1031 /* F_SETPIPE_SZ */, 4096)
		}
		cmd.Stdout = w
		closers = append(closers, w)
		wg.Add(1)
		go func() {
			defer wg.Done()
			defer r.Close()
			switch sink.Stdout {
			case "pipe":
				io.Copy(&outBuf, r)
			case "pipe-slow":
				i := 0
				for {
					n := 1
					if len(sink.Chunks) > 0 {
						n = sink.Chunks[i%len(sink.Chunks)]
						i++
					}
					buf := make([]byte, n)
					k, err := r.Read(buf)
					outBuf.Write(buf[:k])
					if err != nil {
						return
					}
				}
			case "pipe-lazy":
				// a stalled consumer: it takes a piece only when the writer has made
				// no progress for a while (it is blocked on the full pipe, or idle),
				// and drains what is left once the program has ended. A correct
				// program delivers the same bytes however lazy the reader is.
				i, last, still := 0, -1, 0
				for {
					select {
					case <-exited:
						io.Copy(&outBuf, r)
						return
					default:
					}
					var n int32
					syscall.Syscall(syscall.SYS_IOCTL, r.Fd(), 0x541B /* FIONREAD */, uintptr(unsafe.Pointer(&n)))
					if n > 0 && int(n) == last {
						still++
					} else {
						still = 0
					}
					last = int(n)
					if still < 4 {
						time.Sleep(250 * time.Microsecond)
						continue
					}
					sz := 512
					if len(sink.Chunks) > 0 {
						sz = sink.Chunks[i%len(sink.Chunks)]
						i++
					}
					buf := make([]byte, sz)
					k, err := r.Read(buf)
					outBuf.Write(buf[:k])
					if err != nil {
						return
					}
					last, still = -1, 0
				}
			default: // pipe-close
				buf := make([]byte, sink.CloseK)
				k, _ := io.ReadFull(r, buf)
				outBuf.Write(buf[:k])
				// the reader goes away: the next write fails with EPIPE / SIGPIPE
			}
		}()
	default:
		return nil, fmt.Errorf("unknown stdout sink %q", sink.Stdout)
	}

	switch sink.Stderr {
	case "same":
		cmd.Stderr = cmd.Stdout
		res.Merged = true
	case "file":
		f, err := os.CreateTemp(dir, "stderr-*")
		if err != nil {
			return nil, err
		}
		cmd.Stderr = f
		after = append(after, func() {
			f.Close()
			data, _ := os.ReadFile(f.Name())
			errBuf.Write(data)
			os.Remove(f.Name())
		})
	default:
		cmd.Stderr = &errBuf
	}
	cmd.SysProcAttr = &syscall.SysProcAttr{Setpgid: true}
	cmd.Cancel = func() error { return syscall.Kill(-cmd.Process.Pid, syscall.SIGKILL) }
	cmd.WaitDelay = 2 * time.Second
	err := cmd.Start()
	for _, c := range closers {
		c.Close() // the child holds its own copies
	}
	if err != nil {
		close(exited)
		wg.Wait()
		return nil, err
	}
	cmd.Wait()
	close(exited)
	wg.Wait()
	for _, f := range after {
		f()
	}
	if ctx.Err() != nil {
		res.TimedOut = true
	}
	if ps := cmd.ProcessState; ps != nil {
		res.ExitCode = ps.ExitCode()
		if ws, ok := ps.Sys().(syscall.WaitStatus); ok && ws.Signaled() {
			res.Signal = ws.Signal().String()
			res.ExitCode = -1
		}
	}
	res.Stdout = outBuf.String()
	if sink.Stdout == "pty" {
		res.Stdout = strings.ReplaceAll(res.Stdout, "\r\n", "\n")
	}
	res.Stderr = errBuf.String()
	return res, nil
}

// Sinks draws the sink configurations for one program.
func Sinks(r *core.Rng, all bool) []Sink {
	chunks := func() []int {
		n := r.Range(1, 4)
		var c []int
		for i := 0; i < n; i++ {
			c = append(c, core.Pick(r, []int{1, 2, 3, 7, 16, 100, 4096}))
		}
		return c
	}
	out := []Sink{
		{Stdout: "pipe", Stderr: "pipe"},
		{Stdout: "file", Stderr: core.Pick(r, []string{"pipe", "file"})},
		{Stdout: "pty", Stderr: "pipe"},
		{Stdout: "pipe-slow", Stderr: "pipe", Chunks: chunks()},
		{Stdout: "pipe-lazy", Stderr: core.Pick(r, []string{"pipe", "pipe", "file", "same"}), Chunks: []int{core.Pick(r, []int{1000, 2500, 4096})}},
	}
	extra := []Sink{
		{Stdout: "pipe", Stderr: "same"},
		{Stdout: "file", Stderr: "same"},
		{Stdout: "pipe-close", Stderr: "pipe", CloseK: core.Pick(r, []int{0, 1, 5, 17, 64, 300})},
		{Stdout: "devfull", Stderr: "pipe"},
		{Stdout: "pty", Stderr: "same"},
	}
	if all {
		return append(out, extra...)
	}
	// two of the extra ones per program
	i := r.Intn(len(extra))
	j := (i + 1 + r.Intn(len(extra)-1)) % len(extra)
	return append(out, extra[i], extra[j])
}
