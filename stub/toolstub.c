/* Stand-in for `as` and `ld` in runs where only the compiler's own output is
 * compared: creates the file named after -o and exits 0. */
#include <fcntl.h>
#include <string.h>
#include <unistd.h>
int main(int argc, char **argv) {
    for (int i = 1; i + 1 < argc; i++) {
        if (strcmp(argv[i], "-o") == 0) {
            int fd = open(argv[i + 1], O_WRONLY | O_CREAT | O_TRUNC, 0755);
            if (fd < 0) return 1;
            if (write(fd, "VERIF-TOOL-STUB\n", 16) != 16) return 1;
            close(fd);
        }
    }
    return 0;
}
