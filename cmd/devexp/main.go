// devexp: development experiments (not part of any registered check).
package main

import (
	"fmt"
	"os"

	"verif/internal/core"
	"verif/internal/schedsim"
)

func main() {
	core.SetupEnv()
	b, err := schedsim.Prepare("exp", false)
	if err != nil {
		fmt.Println(err)
		os.Exit(2)
	}
	defer b.Close()
	g := &schedsim.Graph{N: 3, Edges: [][]int{{0, 1, 1}, {0, 0, 1}, {0, 1, 0}}}
	for _, strat := range []string{"random", "winpre", "sticky50", "pct2"} {
		hits := 0
		for batch := 0; batch < 5; batch++ {
			var units []schedsim.Unit
			for k := 0; k < 12; k++ {
				r := core.Sub(1, "exp", strat, batch, k)
				pl := schedsim.RandomPlan(r, 0)
				pl.Strategy = strat
				units = append(units, schedsim.Unit{Project: g.Project(), Backend: "native", Plan: pl, KeepGen: true, Tools: "stub"})
			}
			outs := schedsim.RunBatch(b, units, func(i int, rr *schedsim.RunResult, k int) []schedsim.Issue {
				return schedsim.UnitJudgeC15(g)(&units[i], rr, k)
			}, nil)
			for _, o := range outs {
				if len(o.Issues) > 0 {
					hits++
				}
			}
		}
		fmt.Println(strat, hits, "of 60")
	}
}
