// devexp: development experiments (not part of any registered check).
package main

import (
	"fmt"
	"os"
	"strings"

	"verif/internal/core"
	"verif/internal/schedsim"
)

func main() {
	core.SetupEnv()
	b, err := schedsim.Prepare("exp", false)
	if err != nil {
		fmt.Println(err)
		os.Exit(2)
	}
	defer b.Close()
	p := schedsim.Project{Dir: "q", Entry: "main.fer", Files: map[string]string{}}
	filler := strings.Repeat("fn Pad%d() -> i32 {\n    let a: i32 = 1;\n    return a + 2;\n}\n", 1)
	for i := 1; i <= 2; i++ {
		var b strings.Builder
		for k := 0; k < 20*i; k++ {
			fmt.Fprintf(&b, filler, k)
		}
		fmt.Fprintf(&b, "fn Run() -> i32 {\n    let a := ;\n    return %d;\n}\n", i)
		p.Files[fmt.Sprintf("m%d.fer", i)] = b.String()
	}
	p.Files["main.fer"] = "import \"std/io\";\nimport \"q/m1\";\nimport \"q/m2\";\nfn main() {\n    io::Println(m1::Run() + m2::Run());\n}\n"
	counts := map[int]int{}
	stalls := 0
	for batch := 0; batch < 8; batch++ {
		var units []schedsim.Unit
		for k := 0; k < 12; k++ {
			r := core.Sub(1, "exp", batch, k)
			pl := schedsim.RandomPlan(r, 0)
			pl.Strategy = core.Pick(r, []string{"random", "sticky50"})
			pl.Fine = true
			pl.FineProb = core.Pick(r, []int{1, 1, 2, 4})
			units = append(units, schedsim.Unit{Project: p, Backend: "native", Plan: pl, KeepGen: true, Tools: "stub"})
		}
		schedsim.RunBatch(b, units, func(i int, rr *schedsim.RunResult, k int) []schedsim.Issue {
			n := strings.Count(rr.Results[k].Stderr, "error")
			counts[n]++
			stalls += rr.Results[k].Sim.Probes["window-stall"]
			return nil
		}, nil)
	}
	fmt.Println("error-line counts:", counts, "window stalls:", stalls)
}
