// rewriter turns a scratch copy of the Ferret compiler into its simulated
// form. All rewrites are text edits that keep every line number unchanged, so
// stack traces of the simulated compiler name the lines of the original tree.
//
//	rewriter -dir <scratch copy> [-fine]
//
// Rewrites (see DESIGN.md §3.1):
//  1. imports of sync and sync/atomic -> compiler/zsim/sync[/atomic]
//  2. go statements                    -> simrt.Go / simrt.GoN
//  3. range over a map                 -> range simrt.MapSeq2(m, site)
//  4. os.ReadFile & co, exec.Command, os.Exit -> simrt wrappers
//  5. (-fine) simrt.Y() before every statement; read-modify-write splitting
//  6. func main in the root package    -> func ferretMain
package main

import (
	"bytes"
	"encoding/json"
	"flag"
	"fmt"
	"go/ast"
	"go/token"
	"go/types"
	"os"
	"path/filepath"
	"reflect"
	"sort"
	"strings"

	"golang.org/x/tools/go/packages"
)

type edit struct {
	off, end int // replace [off,end) ...
	text     string
	prio     int // order among edits at the same offset
}

type fileEdits struct {
	path      string
	edits     []edit
	needSimrt bool
	keepAlive map[string]string // import local name -> expression keeping it used
}

var osWrap = map[string]string{
	"ReadFile": "OsReadFile", "Stat": "OsStat", "MkdirAll": "OsMkdirAll", "WriteFile": "OsWriteFile",
	"RemoveAll": "OsRemoveAll", "Remove": "OsRemove", "Create": "OsCreate", "Open": "OsOpen",
	"ReadDir": "OsReadDir", "Exit": "OsExit",
}

type report struct {
	Files       int            `json:"files"`
	GoStmts     []string       `json:"go_stmts"`
	MapRanges   []string       `json:"map_ranges"`
	OsCalls     map[string]int `json:"os_calls"`
	SyncImport  []string       `json:"sync_imports"`
	Yields      int            `json:"yields"`
	RMWSplits   int            `json:"rmw_splits"`
	MapWrites   int            `json:"map_writes_instrumented"`
	MapReads    int            `json:"map_reads_instrumented"`
	PlainWrites int            `json:"plain_writes_instrumented"`
	FieldReads  int            `json:"guarded_field_reads_instrumented"`
	Channels    []string       `json:"channel_ops"` // not simulated: reported so that the harness can warn
	Skipped     []string       `json:"skipped"`
}

func main() {
	dir := flag.String("dir", "", "scratch copy of the repository")
	fine := flag.Bool("fine", false, "insert statement-level yields")
	flag.Parse()
	if *dir == "" {
		fmt.Fprintln(os.Stderr, "rewriter: -dir required")
		os.Exit(2)
	}
	root, _ := filepath.Abs(*dir)
	cfg := &packages.Config{
		Mode: packages.NeedName | packages.NeedFiles | packages.NeedCompiledGoFiles | packages.NeedSyntax |
			packages.NeedTypes | packages.NeedTypesInfo | packages.NeedImports | packages.NeedDeps,
		Dir: root,
		Env: append(os.Environ(), "GOFLAGS=-mod=mod", "GOPROXY=off", "GOSUMDB=off"),
	}
	pkgs, err := packages.Load(cfg, "./...")
	if err != nil {
		fmt.Fprintln(os.Stderr, "rewriter: load:", err)
		os.Exit(2)
	}
	rep := report{OsCalls: map[string]int{}}
	bad := false
	for _, p := range pkgs {
		if strings.HasPrefix(p.PkgPath, "compiler/zsim") || p.PkgPath == "compiler/tools" {
			continue
		}
		for _, e := range p.Errors {
			fmt.Fprintf(os.Stderr, "rewriter: %s: %v\n", p.PkgPath, e)
			bad = true
		}
		for i, f := range p.Syntax {
			pos := p.Fset.Position(f.Pos())
			if i < len(p.CompiledGoFiles) && !strings.HasPrefix(p.CompiledGoFiles[i], root+string(filepath.Separator)) {
				rep.Skipped = append(rep.Skipped, rel(root, pos.Filename, 0))
				continue // cgo-generated: offsets do not refer to the file on disk
			}
			if !strings.HasPrefix(pos.Filename, root+string(filepath.Separator)) {
				continue // cgo-generated
			}
			if strings.HasSuffix(pos.Filename, "_test.go") {
				continue
			}
			usesCgo := false
			for _, im := range f.Imports {
				if im.Path.Value == `"C"` {
					usesCgo = true
				}
			}
			if usesCgo {
				rep.Skipped = append(rep.Skipped, rel(root, pos.Filename, 0))
				continue
			}
			fe := &fileEdits{path: pos.Filename, keepAlive: map[string]string{}}
			rewriteFile(p, f, fe, *fine, &rep, root)
			if len(fe.edits) > 0 {
				if err := apply(p.Fset, f, fe); err != nil {
					fmt.Fprintln(os.Stderr, "rewriter:", err)
					os.Exit(2)
				}
				rep.Files++
			}
		}
	}
	if bad {
		os.Exit(2)
	}
	out, _ := json.MarshalIndent(rep, "", " ")
	fmt.Println(string(out))
}

func rel(root, file string, line int) string {
	r, err := filepath.Rel(root, file)
	if err != nil {
		r = file
	}
	return fmt.Sprintf("%s:%d", filepath.ToSlash(r), line)
}

func rewriteFile(p *packages.Package, f *ast.File, fe *fileEdits, fine bool, rep *report, root string) {
	fset := p.Fset
	off := func(pos token.Pos) int { return fset.Position(pos).Offset }
	info := p.TypesInfo

	// 1. imports
	for _, im := range f.Imports {
		switch im.Path.Value {
		case `"sync"`:
			fe.edits = append(fe.edits, edit{off(im.Path.Pos()), off(im.Path.End()), `"compiler/zsim/sync"`, 0})
			rep.SyncImport = append(rep.SyncImport, rel(root, fe.path, fset.Position(im.Pos()).Line))
		case `"sync/atomic"`:
			fe.edits = append(fe.edits, edit{off(im.Path.Pos()), off(im.Path.End()), `"compiler/zsim/sync/atomic"`, 0})
			rep.SyncImport = append(rep.SyncImport, rel(root, fe.path, fset.Position(im.Pos()).Line))
		}
	}

	isPkg := func(x ast.Expr, path string) (string, bool) {
		id, ok := x.(*ast.Ident)
		if !ok {
			return "", false
		}
		pn, ok := info.Uses[id].(*types.PkgName)
		if !ok {
			return "", false
		}
		return id.Name, pn.Imported().Path() == path
	}

	// 6. main
	if p.Name == "main" && filepath.Dir(fe.path) == root {
		for _, d := range f.Decls {
			if fd, ok := d.(*ast.FuncDecl); ok && fd.Recv == nil && fd.Name.Name == "main" {
				fe.edits = append(fe.edits, edit{off(fd.Name.Pos()), off(fd.Name.End()), "ferretMain", 0})
			}
		}
	}

	var inFunc int
	var visit func(n ast.Node) bool
	stack := []ast.Node{}
	visit = func(n ast.Node) bool {
		if n == nil {
			top := stack[len(stack)-1]
			stack = stack[:len(stack)-1]
			switch top.(type) {
			case *ast.FuncDecl, *ast.FuncLit:
				inFunc--
			}
			return true
		}
		stack = append(stack, n)
		switch x := n.(type) {
		case *ast.FuncDecl, *ast.FuncLit:
			inFunc++
		case *ast.GoStmt:
			line := fset.Position(x.Pos()).Line
			rep.GoStmts = append(rep.GoStmts, rel(root, fe.path, line))
			fe.needSimrt = true
			call := x.Call
			if fl, ok := call.Fun.(*ast.FuncLit); ok && len(call.Args) == 0 {
				// go func(){...}()  ->  simrt.Go(func(){...})
				fe.edits = append(fe.edits, edit{off(x.Pos()), off(fl.Pos()), "simrt.Go(", 0})
				fe.edits = append(fe.edits, edit{off(fl.End()), off(call.End()), ")", 0})
			} else {
				sig, _ := info.TypeOf(call.Fun).Underlying().(*types.Signature)
				if sig == nil || sig.Variadic() || sig.Results().Len() > 0 || len(call.Args) > 4 || call.Ellipsis.IsValid() {
					fmt.Fprintf(os.Stderr, "rewriter: unsupported go statement at %s (variadic, results or > 4 arguments)\n", fset.Position(x.Pos()))
					os.Exit(2)
				}
				// go f(a, b) -> simrt.Go2(f, a, b)
				name := "simrt.Go"
				if len(call.Args) > 0 {
					name = fmt.Sprintf("simrt.Go%d", len(call.Args))
				}
				fe.edits = append(fe.edits, edit{off(x.Pos()), off(call.Fun.Pos()), name + "(", 0})
				if len(call.Args) == 0 {
					fe.edits = append(fe.edits, edit{off(call.Lparen), off(call.Rparen) + 1, ")", 0})
				} else {
					fe.edits = append(fe.edits, edit{off(call.Lparen), off(call.Lparen) + 1, ", ", 0})
				}
			}
		case *ast.RangeStmt:
			t := info.TypeOf(x.X)
			if t != nil {
				if _, ok := t.Underlying().(*types.Map); ok {
					pos := fset.Position(x.Pos())
					site := rel(root, fe.path, pos.Line)
					rep.MapRanges = append(rep.MapRanges, site)
					fe.needSimrt = true
					fe.edits = append(fe.edits, edit{off(x.X.Pos()), off(x.X.Pos()), "simrt.MapSeq2(", 5})
					fe.edits = append(fe.edits, edit{off(x.X.End()), off(x.X.End()), fmt.Sprintf(", %q)", site), -5})
				}
				if _, ok := t.Underlying().(*types.Chan); ok {
					rep.Channels = append(rep.Channels, rel(root, fe.path, fset.Position(x.Pos()).Line))
				}
			}
		case *ast.SendStmt:
			rep.Channels = append(rep.Channels, rel(root, fe.path, fset.Position(x.Pos()).Line))
		case *ast.UnaryExpr:
			if x.Op == token.ARROW {
				rep.Channels = append(rep.Channels, rel(root, fe.path, fset.Position(x.Pos()).Line))
			}
		case *ast.SelectStmt:
			rep.Channels = append(rep.Channels, rel(root, fe.path, fset.Position(x.Pos()).Line))
		case *ast.SelectorExpr:
			if name, ok := isPkg(x.X, "os"); ok {
				if w, ok := osWrap[x.Sel.Name]; ok {
					fe.edits = append(fe.edits, edit{off(x.Pos()), off(x.End()), "simrt." + w, 0})
					fe.needSimrt = true
					fe.keepAlive[name] = name + ".Stderr"
					rep.OsCalls["os."+x.Sel.Name]++
				}
			} else if name, ok := isPkg(x.X, "os/exec"); ok && x.Sel.Name == "Command" {
				fe.edits = append(fe.edits, edit{off(x.Pos()), off(x.End()), "simrt.ExecCommand", 0})
				fe.needSimrt = true
				fe.keepAlive[name] = name + ".ErrNotFound"
				rep.OsCalls["exec.Command"]++
			}
		case *ast.BlockStmt:
			if fine && inFunc > 0 {
				yieldList(fset, info, x.List, fe, rep)
			}
		case *ast.CaseClause:
			if fine && inFunc > 0 {
				yieldList(fset, info, x.Body, fe, rep)
			}
		case *ast.CommClause:
			if fine && inFunc > 0 {
				yieldList(fset, info, x.Body, fe, rep)
			}
		}
		return true
	}
	ast.Inspect(f, visit)

	if fe.needSimrt {
		// same line as the package clause: line numbers stay what they were
		fe.edits = append(fe.edits, edit{off(f.Name.End()), off(f.Name.End()), `; import simrt "compiler/zsim/simrt"`, 0})
	}
	if len(fe.keepAlive) > 0 {
		names := make([]string, 0, len(fe.keepAlive))
		for n := range fe.keepAlive {
			names = append(names, n)
		}
		sort.Strings(names)
		var b strings.Builder
		for _, n := range names {
			fmt.Fprintf(&b, "\nvar _ = %s\n", fe.keepAlive[n])
		}
		end := off(f.End())
		fe.edits = append(fe.edits, edit{end, end, b.String(), 0})
	}
}

// pure reports whether evaluating e twice is harmless (identifiers, field
// selections, indexing by identifiers or literals).
func pure(e ast.Expr) bool {
	switch x := e.(type) {
	case *ast.Ident:
		return true
	case *ast.BasicLit:
		return true
	case *ast.SelectorExpr:
		return pure(x.X)
	case *ast.IndexExpr:
		return pure(x.X) && pure(x.Index)
	case *ast.ParenExpr:
		return pure(x.X)
	case *ast.StarExpr:
		return pure(x.X)
	}
	return false
}

// shared reports whether e can denote memory visible to another goroutine: a
// field, an element, a dereference, or a package-level variable.
func shared(info *types.Info, e ast.Expr) bool {
	switch x := e.(type) {
	case *ast.SelectorExpr, *ast.IndexExpr, *ast.StarExpr:
		return true
	case *ast.ParenExpr:
		return shared(info, x.X)
	case *ast.Ident:
		if v, ok := info.Uses[x].(*types.Var); ok && v.Parent() != nil && v.Parent().Parent() == types.Universe {
			return true // package scope
		}
	}
	return false
}

// guardedField reports whether e selects a data field of a struct type that
// itself holds a synchronisation primitive (the field is then part of state
// the code declares to be shared between goroutines).
func guardedField(info *types.Info, e *ast.SelectorExpr) bool {
	sel, ok := info.Selections[e]
	if !ok || sel.Kind() != types.FieldVal || len(sel.Index()) != 1 {
		return false
	}
	t := sel.Recv()
	if p, isPtr := t.Underlying().(*types.Pointer); isPtr {
		t = p.Elem()
	}
	st, ok := t.Underlying().(*types.Struct)
	if !ok {
		return false
	}
	isSync := func(ft types.Type) bool {
		if p, isPtr := ft.(*types.Pointer); isPtr {
			ft = p.Elem()
		}
		n, ok := ft.(*types.Named)
		if !ok || n.Obj().Pkg() == nil {
			return false
		}
		pp := n.Obj().Pkg().Path()
		return pp == "sync" || pp == "sync/atomic" || strings.HasSuffix(pp, "/zsim/sync") || strings.HasSuffix(pp, "/zsim/sync/atomic")
	}
	if isSync(sel.Obj().Type()) {
		return false // the primitive itself
	}
	for i := 0; i < st.NumFields(); i++ {
		if isSync(st.Field(i).Type()) {
			return true
		}
	}
	return false
}

func src(fset *token.FileSet, e ast.Node) string {
	var b bytes.Buffer
	pos, end := fset.Position(e.Pos()), fset.Position(e.End())
	data, err := os.ReadFile(pos.Filename)
	if err != nil {
		return ""
	}
	b.Write(data[pos.Offset:end.Offset])
	return b.String()
}

func yieldList(fset *token.FileSet, info *types.Info, list []ast.Stmt, fe *fileEdits, rep *report) {
	off := func(pos token.Pos) int { return fset.Position(pos).Offset }
	for _, st := range list {
		switch st.(type) {
		case *ast.EmptyStmt, *ast.CaseClause, *ast.CommClause:
			continue
		}
		fe.needSimrt = true
		rep.Yields++
		fe.edits = append(fe.edits, edit{off(st.Pos()), off(st.Pos()), "simrt.Y(); ", 10})

		// map reads in the statement's own expressions (not in nested blocks or
		// function literals): happens-before race check against writes (simrt.MR)
		{
			seen := map[string]bool{}
			var heads []ast.Node
			switch x := st.(type) {
			case *ast.IfStmt:
				heads = []ast.Node{x.Init, x.Cond}
			case *ast.ForStmt:
				heads = []ast.Node{x.Init, x.Cond}
			case *ast.RangeStmt:
				heads = nil // MapSeq2 checks the ranged map itself
			case *ast.SwitchStmt:
				heads = []ast.Node{x.Init, x.Tag}
			case *ast.TypeSwitchStmt:
				heads = []ast.Node{x.Init, x.Assign}
			case *ast.BlockStmt, *ast.SelectStmt, *ast.LabeledStmt, *ast.DeferStmt, *ast.GoStmt:
				heads = nil
			default:
				heads = []ast.Node{st}
			}
			written := map[ast.Expr]bool{}
			if as, ok := st.(*ast.AssignStmt); ok && as.Tok == token.ASSIGN {
				for _, l := range as.Lhs {
					written[l] = true
				}
			}
			for _, h := range heads {
				if h == nil || (reflect.ValueOf(h).Kind() == reflect.Pointer && reflect.ValueOf(h).IsNil()) {
					continue
				}
				ast.Inspect(h, func(n ast.Node) bool {
					switch e := n.(type) {
					case *ast.FuncLit:
						return false
					case *ast.IndexExpr:
						if written[e] {
							return true
						}
						if ix, isMap := isMapIndex(info, e); isMap && shared(info, ix.X) && pure(ix.X) {
							m := src(fset, ix.X)
							if m != "" && !strings.Contains(m, "\n") && !seen[m] {
								seen[m] = true
							}
						}
					}
					return true
				})
			}
			if len(seen) > 0 {
				pos := fset.Position(st.Pos())
				ms := make([]string, 0, len(seen))
				for m := range seen {
					ms = append(ms, m)
				}
				sort.Strings(ms)
				var b strings.Builder
				for _, m := range ms {
					fmt.Fprintf(&b, "simrt.MR(%s, %q); ", m, fmt.Sprintf("%s:%d", filepath.Base(pos.Filename), pos.Line))
					rep.MapReads++
				}
				fe.edits = append(fe.edits, edit{off(st.Pos()), off(st.Pos()), b.String(), 6})
			}
		}

		// unconditional reads of fields of lock-carrying structs (simrt.RD)
		{
			var heads []ast.Node
			switch x := st.(type) {
			case *ast.IfStmt:
				if x.Init != nil {
					heads = []ast.Node{x.Init}
				} else {
					heads = []ast.Node{x.Cond}
				}
			case *ast.ForStmt:
				if x.Init != nil {
					heads = []ast.Node{x.Init}
				}
			case *ast.RangeStmt:
				heads = []ast.Node{x.X}
			case *ast.SwitchStmt:
				if x.Init != nil {
					heads = []ast.Node{x.Init}
				} else if x.Tag != nil {
					heads = []ast.Node{x.Tag}
				}
			case *ast.TypeSwitchStmt:
				if x.Init != nil {
					heads = []ast.Node{x.Init}
				} else {
					heads = []ast.Node{x.Assign}
				}
			case *ast.AssignStmt:
				for _, r := range x.Rhs {
					heads = append(heads, r)
				}
				if x.Tok != token.DEFINE {
					for _, l := range x.Lhs {
						// the location written is not read, what leads to it is
						switch le := l.(type) {
						case *ast.SelectorExpr:
							heads = append(heads, le.X)
						case *ast.IndexExpr:
							heads = append(heads, le.X, le.Index)
						case *ast.StarExpr:
							heads = append(heads, le.X)
						}
					}
				}
			case *ast.ExprStmt, *ast.ReturnStmt, *ast.SendStmt, *ast.DeclStmt, *ast.GoStmt, *ast.DeferStmt:
				heads = []ast.Node{st}
			}
			seen := map[string]bool{}
			var order []string
			var visit func(n ast.Node)
			visit = func(n ast.Node) {
				if n == nil || (reflect.ValueOf(n).Kind() == reflect.Pointer && reflect.ValueOf(n).IsNil()) {
					return
				}
				ast.Inspect(n, func(c ast.Node) bool {
					switch e := c.(type) {
					case *ast.FuncLit:
						return false
					case *ast.BinaryExpr:
						if e.Op == token.LAND || e.Op == token.LOR {
							visit(e.X) // the right operand is evaluated conditionally
							return false
						}
					case *ast.UnaryExpr:
						if e.Op == token.AND {
							// &x.f takes an address, it does not read x.f
							if se, ok := e.X.(*ast.SelectorExpr); ok {
								visit(se.X)
								return false
							}
						}
					case *ast.SelectorExpr:
						if guardedField(info, e) && pure(e) && addressable(info, e) {
							t := src(fset, e)
							if t != "" && !strings.Contains(t, "\n") && !seen[t] {
								seen[t] = true
								order = append(order, t)
							}
						}
					}
					return true
				})
			}
			for _, h := range heads {
				visit(h)
			}
			if len(order) > 0 {
				pos := fset.Position(st.Pos())
				var b strings.Builder
				for _, t := range order {
					fmt.Fprintf(&b, "simrt.RD(&%s, %q); ", t, fmt.Sprintf("%s:%d", filepath.Base(pos.Filename), pos.Line))
					rep.FieldReads++
				}
				fe.edits = append(fe.edits, edit{off(st.Pos()), off(st.Pos()), b.String(), 8})
			}
		}

		// plain assignments to shared locations: write-write race check (simrt.WR)
		if as, ok := st.(*ast.AssignStmt); ok && as.Tok != token.DEFINE {
			pos := fset.Position(st.Pos())
			var b strings.Builder
			for _, l := range as.Lhs {
				if id, isId := l.(*ast.Ident); isId && id.Name == "_" {
					continue
				}
				if _, isMap := isMapIndex(info, l); isMap {
					continue
				}
				if !shared(info, l) || !pure(l) || !addressable(info, l) {
					continue
				}
				t := src(fset, l)
				if t == "" || strings.Contains(t, "\n") {
					continue
				}
				fmt.Fprintf(&b, "simrt.WR(&%s, %q); ", t, fmt.Sprintf("%s:%d", filepath.Base(pos.Filename), pos.Line))
				rep.PlainWrites++
			}
			if b.Len() > 0 {
				fe.edits = append(fe.edits, edit{off(st.Pos()), off(st.Pos()), b.String(), 7})
			}
		}

		// map writes: happens-before race check (simrt.MW)
		mapWrite := func(target ast.Expr) {
			ix, isMap := isMapIndex(info, target)
			if !isMap || !shared(info, ix.X) || !pure(ix.X) {
				return
			}
			m := src(fset, ix.X)
			if m == "" || strings.Contains(m, "\n") {
				return
			}
			pos := fset.Position(st.Pos())
			fe.edits = append(fe.edits, edit{off(st.Pos()), off(st.Pos()), fmt.Sprintf("simrt.MW(%s, %q); ", m, fmt.Sprintf("%s:%d", filepath.Base(pos.Filename), pos.Line)), 5})
			rep.MapWrites++
		}
		switch x := st.(type) {
		case *ast.AssignStmt:
			if x.Tok != token.DEFINE {
				for _, l := range x.Lhs {
					mapWrite(l)
				}
			}
		case *ast.IncDecStmt:
			mapWrite(x.X)
		case *ast.ExprStmt:
			if call, ok := x.X.(*ast.CallExpr); ok && len(call.Args) == 2 {
				if id, ok := call.Fun.(*ast.Ident); ok && id.Name == "delete" {
					if _, isB := info.Uses[id].(*types.Builtin); isB {
						if t := info.TypeOf(call.Args[0]); t != nil {
							if _, isMap := t.Underlying().(*types.Map); isMap && shared(info, call.Args[0]) && pure(call.Args[0]) {
								m := src(fset, call.Args[0])
								if m != "" && !strings.Contains(m, "\n") {
									pos := fset.Position(st.Pos())
									fe.edits = append(fe.edits, edit{off(st.Pos()), off(st.Pos()), fmt.Sprintf("simrt.MW(%s, %q); ", m, fmt.Sprintf("%s:%d", filepath.Base(pos.Filename), pos.Line)), 5})
									rep.MapWrites++
								}
							}
						}
					}
				}
			}
		}

		// read-modify-write splitting
		switch x := st.(type) {
		case *ast.IncDecStmt:
			if pure(x.X) && shared(info, x.X) {
				l := src(fset, x.X)
				op := "+"
				if x.Tok == token.DEC {
					op = "-"
				}
				if l != "" && !strings.Contains(l, "\n") {
					fe.edits = append(fe.edits, edit{off(x.Pos()), off(x.End()),
						fmt.Sprintf("{ zsimT := %s; %s; %s = zsimT %s 1 }", l, ywCall(info, x.X, l), l, op), 0})
					rep.RMWSplits++
				}
			}
		case *ast.AssignStmt:
			if len(x.Lhs) != 1 || len(x.Rhs) != 1 || !pure(x.Lhs[0]) || !shared(info, x.Lhs[0]) {
				break
			}
			if _, isMapIdx := isMapIndex(info, x.Lhs[0]); isMapIdx && x.Tok != token.ASSIGN {
				// m[k] += v: keep (zsimT := m[k] is fine) – handled below
			}
			l := src(fset, x.Lhs[0])
			if l == "" || strings.Contains(l, "\n") {
				break
			}
			switch x.Tok {
			case token.ADD_ASSIGN, token.SUB_ASSIGN:
				if !callFree(info, x.Rhs[0]) {
					break
				}
				op := "+"
				if x.Tok == token.SUB_ASSIGN {
					op = "-"
				}
				fe.edits = append(fe.edits, edit{off(x.Pos()), off(x.Pos()), fmt.Sprintf("{ zsimT := %s; %s; ", l, ywCall(info, x.Lhs[0], l)), 0})
				fe.edits = append(fe.edits, edit{off(x.TokPos), off(x.TokPos) + 2, fmt.Sprintf("= zsimT %s (", op), 0})
				fe.edits = append(fe.edits, edit{off(x.End()), off(x.End()), ") }", -10})
				rep.RMWSplits++
			case token.ASSIGN:
				call, ok := x.Rhs[0].(*ast.CallExpr)
				if !ok || len(call.Args) < 1 {
					break
				}
				if id, ok := call.Fun.(*ast.Ident); !ok || id.Name != "append" {
					break
				} else if _, isBuiltin := info.Uses[id].(*types.Builtin); !isBuiltin {
					break
				}
				if src(fset, call.Args[0]) != l {
					break
				}
				restFree := true
				for _, a := range call.Args[1:] {
					if !callFree(info, a) {
						restFree = false
					}
				}
				if !restFree {
					break
				}
				// x.f = append(x.f, rest...) -> { zsimT := x.f; simrt.Y(); x.f = append(zsimT, rest...) }
				fe.edits = append(fe.edits, edit{off(x.Pos()), off(x.Pos()), fmt.Sprintf("{ zsimT := %s; %s; ", l, ywCall(info, x.Lhs[0], l)), 0})
				fe.edits = append(fe.edits, edit{off(call.Args[0].Pos()), off(call.Args[0].End()), "zsimT", 0})
				fe.edits = append(fe.edits, edit{off(x.End()), off(x.End()), " }", -10})
				rep.RMWSplits++
			}
		}
	}
}

// callFree reports whether evaluating e calls no user function (so that the
// moment at which the left-hand side is read cannot matter sequentially).
func callFree(info *types.Info, e ast.Expr) bool {
	ok := true
	ast.Inspect(e, func(n ast.Node) bool {
		switch x := n.(type) {
		case *ast.FuncLit:
			return false
		case *ast.CallExpr:
			if tv, found := info.Types[x.Fun]; found && tv.IsType() {
				return true // conversion
			}
			if id, isId := x.Fun.(*ast.Ident); isId {
				if _, isB := info.Uses[id].(*types.Builtin); isB && (id.Name == "len" || id.Name == "cap") {
					return true
				}
			}
			ok = false
			return false
		case *ast.UnaryExpr:
			if x.Op == token.ARROW {
				ok = false
			}
		}
		return true
	})
	return ok
}

// ywCall is the window yield for the location e (source text l): with the
// location's address when it has one.
func ywCall(info *types.Info, e ast.Expr, l string) string {
	if addressable(info, e) {
		return "simrt.YW(&" + l + ")"
	}
	return "simrt.YW0()"
}

func addressable(info *types.Info, e ast.Expr) bool {
	switch x := e.(type) {
	case *ast.Ident:
		_, ok := info.Uses[x].(*types.Var)
		return ok
	case *ast.ParenExpr:
		return addressable(info, x.X)
	case *ast.StarExpr:
		return true
	case *ast.SelectorExpr:
		if sel, ok := info.Selections[x]; ok && sel.Kind() == types.FieldVal {
			if _, isPtr := info.TypeOf(x.X).Underlying().(*types.Pointer); isPtr {
				return true
			}
			return addressable(info, x.X)
		}
		// qualified identifier pkg.Var
		if _, ok := info.Uses[x.Sel].(*types.Var); ok {
			return true
		}
		return false
	case *ast.IndexExpr:
		t := info.TypeOf(x.X)
		if t == nil {
			return false
		}
		switch t.Underlying().(type) {
		case *types.Slice:
			return true
		case *types.Pointer: // pointer to array
			return true
		case *types.Array:
			return addressable(info, x.X)
		}
		return false
	}
	return false
}

func isMapIndex(info *types.Info, e ast.Expr) (*ast.IndexExpr, bool) {
	ix, ok := e.(*ast.IndexExpr)
	if !ok {
		return nil, false
	}
	t := info.TypeOf(ix.X)
	if t == nil {
		return nil, false
	}
	_, ok = t.Underlying().(*types.Map)
	return ix, ok
}

func apply(fset *token.FileSet, f *ast.File, fe *fileEdits) error {
	data, err := os.ReadFile(fe.path)
	if err != nil {
		return err
	}
	es := fe.edits
	// apply from the end; at equal offsets pure insertions are ordered by prio
	sort.SliceStable(es, func(i, j int) bool {
		if es[i].off != es[j].off {
			return es[i].off > es[j].off
		}
		return es[i].prio < es[j].prio
	})
	limit := len(data)
	for _, e := range es {
		if e.end > limit || e.off > e.end {
			return fmt.Errorf("%s: overlapping edits at offset %d (%q)", fe.path, e.off, e.text)
		}
		data = append(data[:e.off:e.off], append([]byte(e.text), data[e.end:]...)...)
		limit = e.off
	}
	return os.WriteFile(fe.path, data, 0644)
}
