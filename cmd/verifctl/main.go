// verifctl is the command-line front end of the verification framework.
//
//	verifctl check <id> [--tier quick|thorough]
//	verifctl replay <file>
//	verifctl selftest
package main

import (
	"encoding/json"
	"fmt"
	"os"
	"os/signal"
	"syscall"

	"verif/internal/core"
	"verif/internal/iosim"
	"verif/internal/rtsim"
	"verif/internal/schedsim"
)

// replay dispatches a replay file to the engine that wrote it.
func replay(path string) int {
	data, err := os.ReadFile(path)
	if err != nil {
		fmt.Fprintln(os.Stderr, "replay:", err)
		return 2
	}
	var head struct {
		Property string `json:"property"`
	}
	if err := json.Unmarshal(data, &head); err != nil {
		fmt.Fprintln(os.Stderr, "replay:", err)
		return 2
	}
	switch head.Property {
	case "C17":
		return rtsim.ReplayFile(path)
	case "C08":
		return iosim.ReplayFile(path)
	default:
		return schedsim.ReplayFile(path)
	}
}

func usage() {
	fmt.Fprintln(os.Stderr, "usage: verifctl check <C08|C13|C14|C15|C17> [--tier quick|thorough] | replay <file> | selftest")
	os.Exit(2)
}

func main() {
	if len(os.Args) < 2 {
		usage()
	}
	core.SetupEnv()
	sig := make(chan os.Signal, 1)
	signal.Notify(sig, syscall.SIGINT, syscall.SIGTERM)
	go func() {
		<-sig
		core.RemoveAllScratch()
		os.Exit(2)
	}()
	code := 2
	switch os.Args[1] {
	case "check":
		if len(os.Args) < 3 {
			usage()
		}
		id := os.Args[2]
		tier := os.Getenv("VERIF_TIER")
		for i := 3; i < len(os.Args); i++ {
			if os.Args[i] == "--tier" && i+1 < len(os.Args) {
				tier = os.Args[i+1]
				i++
			}
		}
		if tier != "thorough" {
			tier = "quick"
		}
		seed := core.Seed()
		fmt.Printf("VERIF_SEED=%d property=%s tier=%s\n", seed, id, tier)
		switch id {
		case "C17":
			code = rtsim.CheckC17(tier, seed)
		case "C08":
			code = iosim.CheckC08(tier, seed)
		case "C13":
			code = schedsim.CheckC13(schedsim.C13Options{Tier: tier, Seed: seed})
		case "C14":
			code = schedsim.CheckC14(schedsim.C14Options{Tier: tier, Seed: seed})
		case "C15":
			code = schedsim.CheckC15(schedsim.C15Options{Tier: tier, Seed: seed})
		default:
			fmt.Fprintln(os.Stderr, "unknown or unclaimed property", id)
		}
	case "selftest":
		n := 48
		if os.Getenv("VERIF_TIER") == "thorough" {
			n = 200
		}
		code = schedsim.SelfTest(core.Seed(), n)
	case "replay":
		if len(os.Args) < 3 {
			usage()
		}
		code = replay(os.Args[2])
	default:
		usage()
	}
	core.RemoveAllScratch()
	os.Exit(code)
}
