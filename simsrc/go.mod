module compiler

go 1.25.4
