// Package atomic is a drop-in replacement of sync/atomic on top of the
// deterministic simulator: every operation is a scheduling point and is then
// executed indivisibly by the token holder.
package atomic

import (
	"unsafe"

	"compiler/zsim/simrt"
)

func AddInt32(addr *int32, delta int32) (new int32) {
	simrt.Point("atomic.add", true)
	simrt.SyncAddr(unsafe.Pointer(addr))
	*addr += delta
	return *addr
}
func LoadInt32(addr *int32) (val int32) {
	simrt.Point("atomic.load", false)
	simrt.AcquireAddr(unsafe.Pointer(addr))
	return *addr
}
func StoreInt32(addr *int32, val int32) {
	simrt.Point("atomic.store", true)
	simrt.SyncAddr(unsafe.Pointer(addr))
	*addr = val
}
func SwapInt32(addr *int32, new int32) (old int32) {
	simrt.Point("atomic.swap", true)
	simrt.SyncAddr(unsafe.Pointer(addr))
	old = *addr
	*addr = new
	return
}
func CompareAndSwapInt32(addr *int32, old, new int32) (swapped bool) {
	simrt.Point("atomic.cas", true)
	simrt.SyncAddr(unsafe.Pointer(addr))
	if *addr == old {
		*addr = new
		return true
	}
	return false
}

type Int32 struct{ v int32 }

func (x *Int32) Load() int32                        { return LoadInt32(&x.v) }
func (x *Int32) Store(val int32)                    { StoreInt32(&x.v, val) }
func (x *Int32) Swap(new int32) int32               { return SwapInt32(&x.v, new) }
func (x *Int32) Add(delta int32) int32              { return AddInt32(&x.v, delta) }
func (x *Int32) CompareAndSwap(old, new int32) bool { return CompareAndSwapInt32(&x.v, old, new) }

func AddInt64(addr *int64, delta int64) (new int64) {
	simrt.Point("atomic.add", true)
	simrt.SyncAddr(unsafe.Pointer(addr))
	*addr += delta
	return *addr
}
func LoadInt64(addr *int64) (val int64) {
	simrt.Point("atomic.load", false)
	simrt.AcquireAddr(unsafe.Pointer(addr))
	return *addr
}
func StoreInt64(addr *int64, val int64) {
	simrt.Point("atomic.store", true)
	simrt.SyncAddr(unsafe.Pointer(addr))
	*addr = val
}
func SwapInt64(addr *int64, new int64) (old int64) {
	simrt.Point("atomic.swap", true)
	simrt.SyncAddr(unsafe.Pointer(addr))
	old = *addr
	*addr = new
	return
}
func CompareAndSwapInt64(addr *int64, old, new int64) (swapped bool) {
	simrt.Point("atomic.cas", true)
	simrt.SyncAddr(unsafe.Pointer(addr))
	if *addr == old {
		*addr = new
		return true
	}
	return false
}

type Int64 struct{ v int64 }

func (x *Int64) Load() int64                        { return LoadInt64(&x.v) }
func (x *Int64) Store(val int64)                    { StoreInt64(&x.v, val) }
func (x *Int64) Swap(new int64) int64               { return SwapInt64(&x.v, new) }
func (x *Int64) Add(delta int64) int64              { return AddInt64(&x.v, delta) }
func (x *Int64) CompareAndSwap(old, new int64) bool { return CompareAndSwapInt64(&x.v, old, new) }

func AddUint32(addr *uint32, delta uint32) (new uint32) {
	simrt.Point("atomic.add", true)
	simrt.SyncAddr(unsafe.Pointer(addr))
	*addr += delta
	return *addr
}
func LoadUint32(addr *uint32) (val uint32) {
	simrt.Point("atomic.load", false)
	simrt.AcquireAddr(unsafe.Pointer(addr))
	return *addr
}
func StoreUint32(addr *uint32, val uint32) {
	simrt.Point("atomic.store", true)
	simrt.SyncAddr(unsafe.Pointer(addr))
	*addr = val
}
func SwapUint32(addr *uint32, new uint32) (old uint32) {
	simrt.Point("atomic.swap", true)
	simrt.SyncAddr(unsafe.Pointer(addr))
	old = *addr
	*addr = new
	return
}
func CompareAndSwapUint32(addr *uint32, old, new uint32) (swapped bool) {
	simrt.Point("atomic.cas", true)
	simrt.SyncAddr(unsafe.Pointer(addr))
	if *addr == old {
		*addr = new
		return true
	}
	return false
}

type Uint32 struct{ v uint32 }

func (x *Uint32) Load() uint32                        { return LoadUint32(&x.v) }
func (x *Uint32) Store(val uint32)                    { StoreUint32(&x.v, val) }
func (x *Uint32) Swap(new uint32) uint32              { return SwapUint32(&x.v, new) }
func (x *Uint32) Add(delta uint32) uint32             { return AddUint32(&x.v, delta) }
func (x *Uint32) CompareAndSwap(old, new uint32) bool { return CompareAndSwapUint32(&x.v, old, new) }

func AddUint64(addr *uint64, delta uint64) (new uint64) {
	simrt.Point("atomic.add", true)
	simrt.SyncAddr(unsafe.Pointer(addr))
	*addr += delta
	return *addr
}
func LoadUint64(addr *uint64) (val uint64) {
	simrt.Point("atomic.load", false)
	simrt.AcquireAddr(unsafe.Pointer(addr))
	return *addr
}
func StoreUint64(addr *uint64, val uint64) {
	simrt.Point("atomic.store", true)
	simrt.SyncAddr(unsafe.Pointer(addr))
	*addr = val
}
func SwapUint64(addr *uint64, new uint64) (old uint64) {
	simrt.Point("atomic.swap", true)
	simrt.SyncAddr(unsafe.Pointer(addr))
	old = *addr
	*addr = new
	return
}
func CompareAndSwapUint64(addr *uint64, old, new uint64) (swapped bool) {
	simrt.Point("atomic.cas", true)
	simrt.SyncAddr(unsafe.Pointer(addr))
	if *addr == old {
		*addr = new
		return true
	}
	return false
}

type Uint64 struct{ v uint64 }

func (x *Uint64) Load() uint64                        { return LoadUint64(&x.v) }
func (x *Uint64) Store(val uint64)                    { StoreUint64(&x.v, val) }
func (x *Uint64) Swap(new uint64) uint64              { return SwapUint64(&x.v, new) }
func (x *Uint64) Add(delta uint64) uint64             { return AddUint64(&x.v, delta) }
func (x *Uint64) CompareAndSwap(old, new uint64) bool { return CompareAndSwapUint64(&x.v, old, new) }

func AddUintptr(addr *uintptr, delta uintptr) (new uintptr) {
	simrt.Point("atomic.add", true)
	simrt.SyncAddr(unsafe.Pointer(addr))
	*addr += delta
	return *addr
}
func LoadUintptr(addr *uintptr) (val uintptr) {
	simrt.Point("atomic.load", false)
	simrt.AcquireAddr(unsafe.Pointer(addr))
	return *addr
}
func StoreUintptr(addr *uintptr, val uintptr) {
	simrt.Point("atomic.store", true)
	simrt.SyncAddr(unsafe.Pointer(addr))
	*addr = val
}
func SwapUintptr(addr *uintptr, new uintptr) (old uintptr) {
	simrt.Point("atomic.swap", true)
	simrt.SyncAddr(unsafe.Pointer(addr))
	old = *addr
	*addr = new
	return
}
func CompareAndSwapUintptr(addr *uintptr, old, new uintptr) (swapped bool) {
	simrt.Point("atomic.cas", true)
	simrt.SyncAddr(unsafe.Pointer(addr))
	if *addr == old {
		*addr = new
		return true
	}
	return false
}

type Uintptr struct{ v uintptr }

func (x *Uintptr) Load() uintptr                        { return LoadUintptr(&x.v) }
func (x *Uintptr) Store(val uintptr)                    { StoreUintptr(&x.v, val) }
func (x *Uintptr) Swap(new uintptr) uintptr             { return SwapUintptr(&x.v, new) }
func (x *Uintptr) Add(delta uintptr) uintptr            { return AddUintptr(&x.v, delta) }
func (x *Uintptr) CompareAndSwap(old, new uintptr) bool { return CompareAndSwapUintptr(&x.v, old, new) }

func AndInt32(addr *int32, mask int32) (old int32) {
	simrt.Point("atomic.and", true)
	simrt.SyncAddr(unsafe.Pointer(addr))
	old = *addr
	*addr &= mask
	return
}
func OrInt32(addr *int32, mask int32) (old int32) {
	simrt.Point("atomic.or", true)
	simrt.SyncAddr(unsafe.Pointer(addr))
	old = *addr
	*addr |= mask
	return
}
func (x *Int32) And(mask int32) int32 { return AndInt32(&x.v, mask) }
func (x *Int32) Or(mask int32) int32  { return OrInt32(&x.v, mask) }

func AndInt64(addr *int64, mask int64) (old int64) {
	simrt.Point("atomic.and", true)
	simrt.SyncAddr(unsafe.Pointer(addr))
	old = *addr
	*addr &= mask
	return
}
func OrInt64(addr *int64, mask int64) (old int64) {
	simrt.Point("atomic.or", true)
	simrt.SyncAddr(unsafe.Pointer(addr))
	old = *addr
	*addr |= mask
	return
}
func (x *Int64) And(mask int64) int64 { return AndInt64(&x.v, mask) }
func (x *Int64) Or(mask int64) int64  { return OrInt64(&x.v, mask) }

func AndUint32(addr *uint32, mask uint32) (old uint32) {
	simrt.Point("atomic.and", true)
	simrt.SyncAddr(unsafe.Pointer(addr))
	old = *addr
	*addr &= mask
	return
}
func OrUint32(addr *uint32, mask uint32) (old uint32) {
	simrt.Point("atomic.or", true)
	simrt.SyncAddr(unsafe.Pointer(addr))
	old = *addr
	*addr |= mask
	return
}
func (x *Uint32) And(mask uint32) uint32 { return AndUint32(&x.v, mask) }
func (x *Uint32) Or(mask uint32) uint32  { return OrUint32(&x.v, mask) }

func AndUint64(addr *uint64, mask uint64) (old uint64) {
	simrt.Point("atomic.and", true)
	simrt.SyncAddr(unsafe.Pointer(addr))
	old = *addr
	*addr &= mask
	return
}
func OrUint64(addr *uint64, mask uint64) (old uint64) {
	simrt.Point("atomic.or", true)
	simrt.SyncAddr(unsafe.Pointer(addr))
	old = *addr
	*addr |= mask
	return
}
func (x *Uint64) And(mask uint64) uint64 { return AndUint64(&x.v, mask) }
func (x *Uint64) Or(mask uint64) uint64  { return OrUint64(&x.v, mask) }

func AndUintptr(addr *uintptr, mask uintptr) (old uintptr) {
	simrt.Point("atomic.and", true)
	simrt.SyncAddr(unsafe.Pointer(addr))
	old = *addr
	*addr &= mask
	return
}
func OrUintptr(addr *uintptr, mask uintptr) (old uintptr) {
	simrt.Point("atomic.or", true)
	simrt.SyncAddr(unsafe.Pointer(addr))
	old = *addr
	*addr |= mask
	return
}
func (x *Uintptr) And(mask uintptr) uintptr { return AndUintptr(&x.v, mask) }
func (x *Uintptr) Or(mask uintptr) uintptr  { return OrUintptr(&x.v, mask) }

func LoadPointer(addr *unsafe.Pointer) (val unsafe.Pointer) {
	simrt.Point("atomic.load", false)
	simrt.AcquireAddr(unsafe.Pointer(addr))
	return *addr
}
func StorePointer(addr *unsafe.Pointer, val unsafe.Pointer) {
	simrt.Point("atomic.store", true)
	simrt.SyncAddr(unsafe.Pointer(addr))
	*addr = val
}
func SwapPointer(addr *unsafe.Pointer, new unsafe.Pointer) (old unsafe.Pointer) {
	simrt.Point("atomic.swap", true)
	simrt.SyncAddr(unsafe.Pointer(addr))
	old = *addr
	*addr = new
	return
}
func CompareAndSwapPointer(addr *unsafe.Pointer, old, new unsafe.Pointer) (swapped bool) {
	simrt.Point("atomic.cas", true)
	simrt.SyncAddr(unsafe.Pointer(addr))
	if *addr == old {
		*addr = new
		return true
	}
	return false
}

type Bool struct{ v bool }

func (x *Bool) Load() bool {
	simrt.Point("atomic.load", false)
	simrt.AcquireAddr(unsafe.Pointer(x))
	return x.v
}
func (x *Bool) Store(val bool) {
	simrt.Point("atomic.store", true)
	simrt.SyncAddr(unsafe.Pointer(x))
	x.v = val
}
func (x *Bool) Swap(new bool) (old bool) {
	simrt.Point("atomic.swap", true)
	simrt.SyncAddr(unsafe.Pointer(x))
	old = x.v
	x.v = new
	return
}
func (x *Bool) CompareAndSwap(old, new bool) bool {
	simrt.Point("atomic.cas", true)
	simrt.SyncAddr(unsafe.Pointer(x))
	if x.v == old {
		x.v = new
		return true
	}
	return false
}

type Pointer[T any] struct{ v *T }

func (x *Pointer[T]) Load() *T {
	simrt.Point("atomic.load", false)
	simrt.AcquireAddr(unsafe.Pointer(x))
	return x.v
}
func (x *Pointer[T]) Store(val *T) {
	simrt.Point("atomic.store", true)
	simrt.SyncAddr(unsafe.Pointer(x))
	x.v = val
}
func (x *Pointer[T]) Swap(new *T) (old *T) {
	simrt.Point("atomic.swap", true)
	simrt.SyncAddr(unsafe.Pointer(x))
	old = x.v
	x.v = new
	return
}
func (x *Pointer[T]) CompareAndSwap(old, new *T) bool {
	simrt.Point("atomic.cas", true)
	simrt.SyncAddr(unsafe.Pointer(x))
	if x.v == old {
		x.v = new
		return true
	}
	return false
}

type Value struct{ v any }

func (x *Value) Load() any {
	simrt.Point("atomic.load", false)
	simrt.AcquireAddr(unsafe.Pointer(x))
	return x.v
}
func (x *Value) Store(val any) {
	simrt.Point("atomic.store", true)
	simrt.SyncAddr(unsafe.Pointer(x))
	if val == nil {
		panic("sync/atomic: store of nil value into Value")
	}
	x.v = val
}
func (x *Value) Swap(new any) (old any) {
	simrt.Point("atomic.swap", true)
	simrt.SyncAddr(unsafe.Pointer(x))
	old = x.v
	x.v = new
	return
}
func (x *Value) CompareAndSwap(old, new any) bool {
	simrt.Point("atomic.cas", true)
	simrt.SyncAddr(unsafe.Pointer(x))
	if x.v == old {
		x.v = new
		return true
	}
	return false
}
