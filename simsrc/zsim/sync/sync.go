// Package sync is a drop-in replacement of the standard sync package on top of
// the deterministic simulator. Outside a simulation (simrt.Active() == false)
// the program is single-threaded in the harness, so the primitives only track
// their state.
package sync

import (
	"compiler/zsim/simrt"
)

// Locker mirrors sync.Locker.
type Locker interface {
	Lock()
	Unlock()
}

// ---------------------------------------------------------------- Mutex

type Mutex struct {
	clk     simrt.Clock
	locked  bool
	waiters simrt.WaitList
}

func (m *Mutex) Lock() {
	simrt.Point("mutex.lock", true)
	for m.locked {
		if !simrt.Active() {
			simrt.Misuse("recursive Mutex.Lock in single-threaded context (self-deadlock)")
		}
		m.waiters.Park("Mutex.Lock")
	}
	m.locked = true
	simrt.Acquire(&m.clk)
}

func (m *Mutex) TryLock() bool {
	simrt.Point("mutex.trylock", true)
	if m.locked {
		return false
	}
	m.locked = true
	simrt.Acquire(&m.clk)
	return true
}

func (m *Mutex) Unlock() {
	if !m.locked {
		simrt.Misuse("sync: unlock of unlocked mutex")
	}
	simrt.Release(&m.clk)
	m.locked = false
	m.waiters.WakeAll()
	simrt.Point("mutex.unlock", false)
}

// ---------------------------------------------------------------- RWMutex

// RWMutex follows the real implementation's writer preference: once a writer
// waits, new readers block (so recursive read locking can deadlock, as in Go).
//
// Happens-before edges as in the Go memory model: Unlock -> later Lock/RLock,
// RUnlock -> later Lock. Nothing orders one reader after another, so what a
// goroutine writes while holding only the read lock races with other readers.
type RWMutex struct {
	clk            simrt.Clock // published by writers
	rclk           simrt.Clock // published by readers, seen by writers only
	writer         bool
	readers        int
	writersWaiting int
	waiters        simrt.WaitList
}

func (rw *RWMutex) Lock() {
	simrt.Point("rw.lock", true)
	if rw.writer || rw.readers > 0 {
		if !simrt.Active() {
			simrt.Misuse("RWMutex.Lock would self-deadlock in single-threaded context")
		}
		rw.writersWaiting++
		for rw.writer || rw.readers > 0 {
			rw.waiters.Park("RWMutex.Lock")
		}
		rw.writersWaiting--
	}
	rw.writer = true
	simrt.Acquire(&rw.clk)
	simrt.Acquire(&rw.rclk)
}

func (rw *RWMutex) TryLock() bool {
	simrt.Point("rw.trylock", true)
	if rw.writer || rw.readers > 0 {
		return false
	}
	rw.writer = true
	simrt.Acquire(&rw.clk)
	simrt.Acquire(&rw.rclk)
	return true
}

func (rw *RWMutex) Unlock() {
	if !rw.writer {
		simrt.Misuse("sync: Unlock of unlocked RWMutex")
	}
	simrt.Release(&rw.clk)
	rw.writer = false
	rw.waiters.WakeAll()
	simrt.Point("rw.unlock", false)
}

func (rw *RWMutex) RLock() {
	simrt.Point("rw.rlock", false)
	for rw.writer || rw.writersWaiting > 0 {
		if !simrt.Active() {
			simrt.Misuse("RWMutex.RLock would self-deadlock in single-threaded context")
		}
		rw.waiters.Park("RWMutex.RLock")
	}
	rw.readers++
	simrt.Acquire(&rw.clk)
}

func (rw *RWMutex) TryRLock() bool {
	simrt.Point("rw.tryrlock", false)
	if rw.writer || rw.writersWaiting > 0 {
		return false
	}
	rw.readers++
	simrt.Acquire(&rw.clk)
	return true
}

func (rw *RWMutex) RUnlock() {
	if rw.readers <= 0 {
		simrt.Misuse("sync: RUnlock of unlocked RWMutex")
	}
	simrt.Release(&rw.rclk)
	rw.readers--
	if rw.readers == 0 {
		rw.waiters.WakeAll()
	}
	simrt.Point("rw.runlock", false)
}

type rlocker RWMutex

func (r *rlocker) Lock()   { (*RWMutex)(r).RLock() }
func (r *rlocker) Unlock() { (*RWMutex)(r).RUnlock() }

func (rw *RWMutex) RLocker() Locker { return (*rlocker)(rw) }

// ---------------------------------------------------------------- WaitGroup

type WaitGroup struct {
	clk     simrt.Clock
	n       int
	waiters simrt.WaitList
}

func (wg *WaitGroup) Add(delta int) {
	simrt.Point("wg.add", true)
	if delta < 0 {
		simrt.Release(&wg.clk) // Done happens before the Wait it unblocks
	}
	wg.n += delta
	if wg.n < 0 {
		simrt.Misuse("sync: negative WaitGroup counter")
	}
	if wg.n == 0 {
		wg.waiters.WakeAll()
	}
}

func (wg *WaitGroup) Done() { wg.Add(-1) }

func (wg *WaitGroup) Wait() {
	simrt.Point("wg.wait", false)
	for wg.n > 0 {
		if !simrt.Active() {
			simrt.Misuse("WaitGroup.Wait would block forever in single-threaded context")
		}
		wg.waiters.Park("WaitGroup.Wait")
	}
	simrt.Acquire(&wg.clk)
}

func (wg *WaitGroup) Go(f func()) {
	wg.Add(1)
	simrt.Go(func() {
		defer wg.Done()
		f()
	})
}

// ---------------------------------------------------------------- Once

type Once struct {
	clk     simrt.Clock
	done    bool
	running bool
	waiters simrt.WaitList
}

func (o *Once) Do(f func()) {
	simrt.Point("once.do", true)
	if o.done {
		simrt.Acquire(&o.clk)
		return
	}
	for o.running {
		o.waiters.Park("Once.Do")
		if o.done {
			simrt.Acquire(&o.clk)
			return
		}
	}
	o.running = true
	defer func() {
		simrt.Release(&o.clk)
		o.done = true
		o.running = false
		o.waiters.WakeAll()
	}()
	f()
}

func OnceFunc(f func()) func() {
	var o Once
	return func() { o.Do(f) }
}

func OnceValue[T any](f func() T) func() T {
	var o Once
	var v T
	return func() T { o.Do(func() { v = f() }); return v }
}

func OnceValues[T1, T2 any](f func() (T1, T2)) func() (T1, T2) {
	var o Once
	var a T1
	var b T2
	return func() (T1, T2) { o.Do(func() { a, b = f() }); return a, b }
}

// ---------------------------------------------------------------- Map

// Map keeps insertion order so that Range is deterministic; the order of
// Range is then permuted by the simulator's map-order stream like any other
// map iteration.
type Map struct {
	clk  simrt.Clock
	m    map[any]any
	keys []any
}

func (m *Map) Load(key any) (value any, ok bool) {
	simrt.Point("syncmap.load", false)
	simrt.Acquire(&m.clk) // a load observes, it publishes nothing
	value, ok = m.m[key]
	return
}

func (m *Map) Store(key, value any) {
	simrt.Point("syncmap.store", true)
	simrt.Acquire(&m.clk)
	simrt.Release(&m.clk)
	m.store(key, value)
}

func (m *Map) store(key, value any) {
	if m.m == nil {
		m.m = map[any]any{}
	}
	if _, ok := m.m[key]; !ok {
		m.keys = append(m.keys, key)
	}
	m.m[key] = value
}

func (m *Map) Clear() {
	simrt.Point("syncmap.clear", true)
	simrt.Acquire(&m.clk)
	simrt.Release(&m.clk)
	m.m = nil
	m.keys = nil
}

func (m *Map) LoadOrStore(key, value any) (actual any, loaded bool) {
	simrt.Point("syncmap.loadorstore", true)
	simrt.Acquire(&m.clk)
	if v, ok := m.m[key]; ok {
		return v, true
	}
	simrt.Release(&m.clk)
	m.store(key, value)
	return value, false
}

func (m *Map) LoadAndDelete(key any) (value any, loaded bool) {
	simrt.Point("syncmap.loadanddelete", true)
	simrt.Acquire(&m.clk)
	simrt.Release(&m.clk)
	value, loaded = m.m[key]
	if loaded {
		m.del(key)
	}
	return
}

func (m *Map) del(key any) {
	delete(m.m, key)
	for i, k := range m.keys {
		if k == key {
			m.keys = append(m.keys[:i], m.keys[i+1:]...)
			break
		}
	}
}

func (m *Map) Delete(key any) { m.LoadAndDelete(key) }

func (m *Map) Swap(key, value any) (previous any, loaded bool) {
	simrt.Point("syncmap.swap", true)
	simrt.Acquire(&m.clk)
	simrt.Release(&m.clk)
	previous, loaded = m.m[key]
	m.store(key, value)
	return
}

func (m *Map) CompareAndSwap(key, old, new any) bool {
	simrt.Point("syncmap.cas", true)
	simrt.Acquire(&m.clk)
	simrt.Release(&m.clk)
	if v, ok := m.m[key]; ok && v == old {
		m.m[key] = new
		return true
	}
	return false
}

func (m *Map) CompareAndDelete(key, old any) bool {
	simrt.Point("syncmap.cad", true)
	simrt.Acquire(&m.clk)
	simrt.Release(&m.clk)
	if v, ok := m.m[key]; ok && v == old {
		m.del(key)
		return true
	}
	return false
}

func (m *Map) Range(f func(key, value any) bool) {
	simrt.Point("syncmap.range", false)
	simrt.Acquire(&m.clk)
	keys := append([]any(nil), m.keys...)
	keys = simrt.PermuteAny(keys, "sync.Map.Range")
	for _, k := range keys {
		v, ok := m.m[k]
		if !ok {
			continue
		}
		if !f(k, v) {
			break
		}
	}
}

// ---------------------------------------------------------------- Pool

type Pool struct {
	New   func() any
	items []any
}

func (p *Pool) Get() any {
	simrt.Point("pool.get", true)
	if n := len(p.items); n > 0 {
		x := p.items[n-1]
		p.items = p.items[:n-1]
		return x
	}
	if p.New != nil {
		return p.New()
	}
	return nil
}

func (p *Pool) Put(x any) {
	simrt.Point("pool.put", true)
	if x == nil {
		return
	}
	p.items = append(p.items, x)
}

// ---------------------------------------------------------------- Cond

type Cond struct {
	clk     simrt.Clock
	L       Locker
	waiters simrt.WaitList
}

func NewCond(l Locker) *Cond { return &Cond{L: l} }

func (c *Cond) Wait() {
	c.L.Unlock()
	c.waiters.Park("Cond.Wait")
	simrt.Acquire(&c.clk)
	c.L.Lock()
}

func (c *Cond) Signal() { simrt.Point("cond.signal", true); simrt.Release(&c.clk); c.waiters.WakeOne() }
func (c *Cond) Broadcast() {
	simrt.Point("cond.broadcast", true)
	simrt.Release(&c.clk)
	c.waiters.WakeAll()
}
