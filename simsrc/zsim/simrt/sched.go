// Package simrt is the deterministic simulator runtime that the verification
// harness links into a rewritten scratch copy of the Ferret compiler.
//
// Every simulated goroutine is a real goroutine parked on its own channel;
// exactly one of them holds the run token at any time. All simulator state is
// touched only by the token holder, so it needs no locking of its own (the
// channel hand-off orders the accesses).
package simrt

import (
	"fmt"
	"hash/fnv"
	"os"
	"runtime"
	"runtime/debug"
	"sort"
	"strings"
	"unsafe"
)

// G is one simulated goroutine.
type G struct {
	id        int
	name      string // spawn path, e.g. "0.2.1"
	wake      chan struct{}
	nchild    int
	blocked   bool
	reason    string
	done      bool
	prio      int // PCT priority
	parkUntil uint64
	vc        VC // vector clock (happens-before tracking, see race.go)
}

// Plan is everything that decides one simulated compile.
type Plan struct {
	Strategy string   `json:"strategy"`         // fifo|lifo|random|sticky50|sticky90|pct1|pct2|pct3|tape
	Seed     uint64   `json:"seed"`             // schedule PRNG seed
	Tape     []int    `json:"tape,omitempty"`   // replay: choice indices (used when Strategy == "tape")
	MapMode  string   `json:"map_mode"`         // identity|random|reverse
	MapSeed  uint64   `json:"map_seed"`         //
	MapSites []string `json:"map_sites"`        // if non-empty only these sites are permuted
	Faults   []Fault  `json:"faults,omitempty"` // fault plan
	MaxSteps uint64   `json:"max_steps"`        // step budget (0 = default)
	PCTLen   int      `json:"pct_len"`          // estimated number of choice points for PCT change points
	Fine     bool     `json:"fine"`             // fine-grained mode: statement-level yields are scheduling points
	FineProb int      `json:"fine_prob"`        // 1/FineProb of the Y() calls become scheduling points (<=1: all)
	MaxY     uint64   `json:"max_y"`            // statement budget (0 = default)
}

// Stats is what a run reports about the simulation itself.
type Stats struct {
	Steps        uint64            `json:"steps"`        // scheduling points passed
	Decisions    int               `json:"decisions"`    // points with more than one candidate
	Tape         []int             `json:"tape"`         // the decisions taken
	Spawned      int               `json:"spawned"`      // goroutines created
	MaxLive      int               `json:"max_live"`     // max simultaneously live goroutines
	TraceHash    string            `json:"trace_hash"`   // hash of the full (goroutine, op, site) sequence
	ConflictSig  string            `json:"conflict_sig"` // hash of per-site goroutine orders of mutating ops
	MapCalls     int               `json:"map_calls"`    // map iterations seen
	MapPermuted  int               `json:"map_permuted"` // map iterations whose order was changed
	MapTies      int               `json:"map_ties"`     // keys the canonicaliser could not tell apart
	MapSitesSeen map[string]int    `json:"map_sites_seen"`
	FaultsFired  []string          `json:"faults_fired"`
	FaultSites   map[string]int    `json:"fault_sites"` // every fault-able call seen: kind -> count
	Probes       map[string]int    `json:"probes"`
	LiveAtEnd    int               `json:"live_at_end"` // goroutines still alive when the main goroutine finished
	Deadlock     string            `json:"deadlock,omitempty"`
	Crash        string            `json:"crash,omitempty"`
	CrashStack   string            `json:"crash_stack,omitempty"`
	Hang         string            `json:"hang,omitempty"`
	YCalls       uint64            `json:"y_calls"`
	Races        []string          `json:"races,omitempty"` // kind|site of earlier write|site of later write|goroutines
	Extra        map[string]string `json:"extra,omitempty"`
}

type sim struct {
	active   bool
	plan     Plan
	cur      *G
	all      []*G
	runnable []*G // runnable goroutines other than cur, in creation order
	rng      rng
	maprng   rng
	finerng  rng
	curOp    string
	parked   []*G // stalled inside a read-modify-write window until parkUntil
	addrClk  map[unsafe.Pointer]*Clock
	writes   map[unsafe.Pointer]lastWrite
	reads    map[unsafe.Pointer]*readSet
	raceSeen map[string]bool
	rmwOwner map[unsafe.Pointer]int // location -> goroutine id that updated it, -1: several (the pointers keep the objects alive: no address is reused within a run)
	curMut   bool
	tapePos  int
	stats    Stats
	trace    traceHasher
	siteOrd  map[string][]string
	pctStep  []int
	nlive    int
	fatal    func(kind, msg, stack string) // installed by the harness; must not return
	faultOrd map[string]int
	mapOnly  map[string]bool
}

var s sim

type traceHasher struct{ h uint64 }

func (t *traceHasher) add(parts ...string) {
	if t.h == 0 {
		t.h = 1469598103934665603
	}
	for _, p := range parts {
		for i := 0; i < len(p); i++ {
			t.h ^= uint64(p[i])
			t.h *= 1099511628211
		}
		t.h ^= 0xff
		t.h *= 1099511628211
	}
}

// rng is splitmix64; small, seedable and identical everywhere.
type rng struct{ x uint64 }

func (r *rng) next() uint64 {
	r.x += 0x9e3779b97f4a7c15
	z := r.x
	z = (z ^ (z >> 30)) * 0xbf58476d1ce4e5b9
	z = (z ^ (z >> 27)) * 0x94d049bb133111eb
	return z ^ (z >> 31)
}
func (r *rng) intn(n int) int {
	if n <= 1 {
		return 0
	}
	return int(r.next() % uint64(n))
}

// Begin starts a simulated execution; the caller becomes goroutine "0".
func Begin(p Plan, fatal func(kind, msg, stack string)) {
	if p.MaxSteps == 0 {
		p.MaxSteps = 50_000_000
	}
	if p.MaxY == 0 {
		p.MaxY = 400_000_000
	}
	s = sim{}
	s.active = true
	s.plan = p
	s.rng = rng{p.Seed*0x2545F4914F6CDD1D + 1}
	s.maprng = rng{p.MapSeed*0x9E3779B97F4A7C15 + 7}
	s.finerng = rng{p.Seed*0xD1342543DE82EF95 + 11}
	s.fatal = fatal
	s.siteOrd = map[string][]string{}
	s.faultOrd = map[string]int{}
	s.stats.MapSitesSeen = map[string]int{}
	s.stats.FaultSites = map[string]int{}
	s.stats.Probes = map[string]int{}
	if len(p.MapSites) > 0 {
		s.mapOnly = map[string]bool{}
		for _, m := range p.MapSites {
			s.mapOnly[m] = true
		}
	}
	g := &G{id: 0, name: "0", wake: make(chan struct{}, 1), vc: VC{1}}
	s.all = []*G{g}
	s.cur = g
	s.nlive = 1
	s.stats.MaxLive = 1
	if strings.HasPrefix(p.Strategy, "pct") {
		d := int(p.Strategy[3] - '0')
		n := p.PCTLen
		if n <= 0 {
			n = 200
		}
		for i := 0; i < d; i++ {
			s.pctStep = append(s.pctStep, s.rng.intn(n))
		}
		sort.Ints(s.pctStep)
		g.prio = 1000 + s.rng.intn(1000)
	}
}

// End finishes the simulated execution and returns what happened.
// It is called by goroutine "0" after the program under test returned.
func End() Stats {
	if !s.active {
		return s.stats
	}
	live := 0
	for _, g := range s.all {
		if !g.done && g != s.cur {
			live++
		}
	}
	s.stats.LiveAtEnd = live
	s.finishStats()
	s.active = false
	return s.stats
}

func (m *sim) finishStats() {
	m.stats.TraceHash = fmt.Sprintf("%016x", m.trace.h)
	keys := make([]string, 0, len(m.siteOrd))
	for k := range m.siteOrd {
		keys = append(keys, k)
	}
	sort.Strings(keys)
	h := fnv.New64a()
	for _, k := range keys {
		h.Write([]byte(k))
		h.Write([]byte{0})
		for _, g := range m.siteOrd[k] {
			h.Write([]byte(g))
			h.Write([]byte{1})
		}
	}
	m.stats.ConflictSig = fmt.Sprintf("%016x", h.Sum64())
}

// Active reports whether a simulation is running.
func Active() bool { return s.active }

// Probe counts a "this condition was reached" event.
func Probe(name string) {
	if s.active {
		s.stats.Probes[name]++
	}
}

// CurName returns the logical name of the running goroutine.
func CurName() string {
	if !s.active || s.cur == nil {
		return "-"
	}
	return s.cur.name
}

func callerSite(skip int) string {
	// first frame outside the zsim packages
	var pcs [12]uintptr
	n := runtime.Callers(skip+1, pcs[:])
	frames := runtime.CallersFrames(pcs[:n])
	for {
		f, more := frames.Next()
		if !strings.Contains(f.File, "/zsim/") {
			file := f.File
			if i := strings.LastIndex(file, "/"); i >= 0 {
				file = file[i+1:]
			}
			return fmt.Sprintf("%s:%d", file, f.Line)
		}
		if !more {
			break
		}
	}
	return "?"
}

// Point is a scheduling point: the running goroutine is about to perform
// operation op (mut says whether it mutates shared state).
func Point(op string, mut bool) {
	if !s.active {
		return
	}
	s.point(op, mut)
}

// unparkDue makes stalled goroutines runnable again once their time is up (or
// at once when nothing else can run).
func (m *sim) unparkDue(force bool) {
	if len(m.parked) == 0 {
		return
	}
	keep := m.parked[:0]
	for _, g := range m.parked {
		if force || m.stats.Steps >= g.parkUntil {
			m.addRunnable(g)
		} else {
			keep = append(keep, g)
		}
	}
	m.parked = keep
}

func (m *sim) point(op string, mut bool) {
	m.stats.Steps++
	m.unparkDue(false)
	if m.stats.Steps > m.plan.MaxSteps {
		m.die("hang", fmt.Sprintf("step budget of %d scheduling points exceeded", m.plan.MaxSteps), "")
	}
	if m.nlive > 1 {
		site := callerSite(3)
		m.trace.add(m.cur.name, op, site)
		if mut {
			k := op + "@" + site
			m.siteOrd[k] = append(m.siteOrd[k], m.cur.name)
		}
	}
	if len(m.runnable) == 0 {
		return
	}
	// candidates: cur first, then runnable in creation order
	m.curOp, m.curMut = op, mut
	idx := m.choose(len(m.runnable)+1, true)
	if idx == 0 {
		return
	}
	next := m.runnable[idx-1]
	m.switchTo(next, true)
}

// choose returns an index in [0,n). With curFirst, index 0 is the current
// goroutine and 1.. are the other runnable goroutines in creation order.
func (m *sim) choose(n int, curFirst bool) int {
	if n <= 1 {
		return 0
	}
	m.stats.Decisions++
	var c int
	switch {
	case m.plan.Strategy == "tape":
		if m.tapePos < len(m.plan.Tape) {
			c = m.plan.Tape[m.tapePos]
			if c < 0 || c >= n {
				c = 0
			}
		} else {
			c = 0
		}
		m.tapePos++
	case m.plan.Strategy == "fifo" || m.plan.Strategy == "":
		c = 0
	case m.plan.Strategy == "lifo":
		if curFirst {
			c = 0
		} else {
			c = n - 1
		}
	case m.plan.Strategy == "random":
		c = m.rng.intn(n)
	case m.plan.Strategy == "sticky50":
		c = m.sticky(n, curFirst, 50)
	case m.plan.Strategy == "sticky90":
		c = m.sticky(n, curFirst, 90)
	case m.plan.Strategy == "winpre":
		// window-directed preemption: leave the running goroutine right after it
		// released a lock or right before it mutates shared state (where
		// check-then-act windows are), otherwise mostly keep running
		hot := curFirst && (m.curMut || strings.HasSuffix(m.curOp, "unlock"))
		if hot {
			c = m.sticky(n, curFirst, 40)
		} else {
			c = m.sticky(n, curFirst, 93)
		}
	case strings.HasPrefix(m.plan.Strategy, "pct"):
		c = m.pct(n, curFirst)
	default:
		c = m.rng.intn(n)
	}
	m.stats.Tape = append(m.stats.Tape, c)
	return c
}

func (m *sim) sticky(n int, curFirst bool, pct int) int {
	if curFirst && m.rng.intn(100) < pct {
		return 0
	}
	if curFirst {
		return 1 + m.rng.intn(n-1)
	}
	return m.rng.intn(n)
}

func (m *sim) pct(n int, curFirst bool) int {
	// priority change points
	for len(m.pctStep) > 0 && m.stats.Decisions >= m.pctStep[0] {
		m.pctStep = m.pctStep[1:]
		if curFirst {
			m.cur.prio = len(m.pctStep) // lowest priorities
		}
	}
	best, bestP := 0, -1
	for i := 0; i < n; i++ {
		var g *G
		if curFirst {
			if i == 0 {
				g = m.cur
			} else {
				g = m.runnable[i-1]
			}
		} else {
			g = m.runnable[i]
		}
		if g.prio > bestP {
			best, bestP = i, g.prio
		}
	}
	return best
}

func (m *sim) removeRunnable(g *G) {
	for i, x := range m.runnable {
		if x == g {
			m.runnable = append(m.runnable[:i], m.runnable[i+1:]...)
			return
		}
	}
}

func (m *sim) addRunnable(g *G) {
	// keep creation order
	i := sort.Search(len(m.runnable), func(i int) bool { return m.runnable[i].id > g.id })
	m.runnable = append(m.runnable, nil)
	copy(m.runnable[i+1:], m.runnable[i:])
	m.runnable[i] = g
}

// switchTo hands the token to next and parks the current goroutine.
func (m *sim) switchTo(next *G, keepRunnable bool) {
	prev := m.cur
	m.removeRunnable(next)
	if keepRunnable {
		m.addRunnable(prev)
	}
	m.cur = next
	next.wake <- struct{}{}
	<-prev.wake
}

// block parks the current goroutine until another one calls ready(g).
func (m *sim) block(reason string) {
	g := m.cur
	g.blocked = true
	g.reason = reason
	if len(m.runnable) == 0 {
		m.unparkDue(true)
	}
	if len(m.runnable) == 0 {
		m.deadlock()
	}
	m.curOp, m.curMut = "block", false
	idx := m.choose(len(m.runnable), false)
	m.switchTo(m.runnable[idx], false)
	g.blocked = false
	g.reason = ""
}

func (m *sim) ready(g *G) {
	if g.blocked {
		g.blocked = false
		m.addRunnable(g)
	}
}

func (m *sim) deadlock() {
	var b strings.Builder
	for _, g := range m.all {
		if g.done {
			continue
		}
		st := "running"
		if g.blocked {
			st = "blocked on " + g.reason
		}
		fmt.Fprintf(&b, "goroutine %s: %s; ", g.name, st)
	}
	m.die("deadlock", b.String(), "")
}

func (m *sim) die(kind, msg, stack string) {
	switch kind {
	case "deadlock":
		m.stats.Deadlock = msg
	case "hang":
		m.stats.Hang = msg
		m.stats.CrashStack = stack
	default:
		m.stats.Crash = msg
		m.stats.CrashStack = stack
	}
	m.finishStats()
	if m.fatal != nil {
		m.fatal(kind, msg, stack)
	}
	fmt.Fprintf(os.Stderr, "simrt: fatal %s: %s\n%s\n", kind, msg, stack)
	os.Exit(3)
}

// CurrentStats returns the statistics so far (used by the fatal handler).
func CurrentStats() Stats { return s.stats }

// Go starts a simulated goroutine.
func Go(f func()) {
	if !s.active {
		// outside a simulation behave like a plain call would be wrong; run as a real goroutine
		go f()
		return
	}
	parent := s.cur
	parent.nchild++
	g := &G{id: len(s.all), name: fmt.Sprintf("%s.%d", parent.name, parent.nchild), wake: make(chan struct{}, 1)}
	if strings.HasPrefix(s.plan.Strategy, "pct") {
		g.prio = 1000 + s.rng.intn(1000)
	}
	// the go statement happens before the goroutine's execution begins
	g.vc = append(VC(nil), parent.vc...)
	g.tick()
	parent.tick()
	s.all = append(s.all, g)
	s.stats.Spawned++
	s.nlive++
	if s.nlive > s.stats.MaxLive {
		s.stats.MaxLive = s.nlive
	}
	s.addRunnable(g)
	go func() {
		<-g.wake
		defer func() {
			if r := recover(); r != nil {
				if _, ok := r.(ExitPanic); ok {
					// os.Exit from a non-main goroutine: ends the process in reality
					s.die("exit-in-goroutine", fmt.Sprint(r), string(debug.Stack()))
				}
				s.die("crash", fmt.Sprintf("panic in goroutine %s: %v", g.name, r), string(debug.Stack()))
			}
			s.exitCurrent()
		}()
		f()
	}()
	s.point("go", false)
}

// exitCurrent ends the current simulated goroutine and passes the token on.
func (m *sim) exitCurrent() {
	g := m.cur
	g.done = true
	m.nlive--
	if len(m.runnable) == 0 {
		m.unparkDue(true)
	}
	if len(m.runnable) == 0 {
		// nobody runnable: everything else is blocked (goroutine 0 included)
		m.deadlock()
	}
	idx := m.choose(len(m.runnable), false)
	next := m.runnable[idx]
	m.removeRunnable(next)
	m.cur = next
	next.wake <- struct{}{}
}

func Go1[A any](f func(A), a A)                       { Go(func() { f(a) }) }
func Go2[A, B any](f func(A, B), a A, b B)            { Go(func() { f(a, b) }) }
func Go3[A, B, C any](f func(A, B, C), a A, b B, c C) { Go(func() { f(a, b, c) }) }
func Go4[A, B, C, D any](f func(A, B, C, D), a A, b B, c C, d D) {
	Go(func() { f(a, b, c, d) })
}

// Y is the fine-grained yield inserted before statements. In every mode it
// counts statements (deterministic hang detection); in fine mode it is also a
// scheduling point while more than one goroutine is alive.
func Y() {
	if s.active {
		ySlow()
	}
}

func ySlow() {
	s.stats.YCalls++
	if s.stats.YCalls > s.plan.MaxY {
		s.die("hang", fmt.Sprintf("statement budget of %d exceeded", s.plan.MaxY), string(debug.Stack()))
	}
	if !s.plan.Fine || s.nlive < 2 {
		return
	}
	if s.plan.FineProb > 1 && s.finerng.intn(s.plan.FineProb) != 0 {
		return
	}
	s.point("y", false)
}

// YW is the yield the rewriter puts INSIDE a split read-modify-write
// (`t := x.f; YW(&x.f); x.f = append(t, v)`). In fine mode, when the updated
// location has been updated by more than one goroutine during this run, it
// sometimes stalls the goroutine right there while the others run on - the
// schedule under which an unprotected update is lost. Locations touched by
// one goroutine only (parser state, builders) never stall.
func YW[T any](p *T) {
	if s.active {
		ywSlow(unsafe.Pointer(p))
	}
}

// YW0 is YW for locations whose address cannot be taken (map elements).
func YW0() {
	if s.active {
		ywSlow(nil)
	}
}

func ywSlow(addr unsafe.Pointer) {
	s.stats.YCalls++
	if s.stats.YCalls > s.plan.MaxY {
		s.die("hang", fmt.Sprintf("statement budget of %d exceeded", s.plan.MaxY), string(debug.Stack()))
	}
	if !s.plan.Fine || s.nlive < 2 {
		return
	}
	if addr != nil {
		writeAccess(addr, "update", callerSite(3))
	}
	shared := false
	if addr != nil {
		if s.rmwOwner == nil {
			s.rmwOwner = map[unsafe.Pointer]int{}
		}
		owner, seen := s.rmwOwner[addr]
		switch {
		case !seen:
			s.rmwOwner[addr] = s.cur.id
		case owner == -1:
			shared = true
		case owner != s.cur.id:
			s.rmwOwner[addr] = -1
			shared = true
			s.stats.Probes["rmw-location-shared-by-goroutines"]++
		}
	}
	if shared && len(s.runnable) > 0 && s.finerng.intn(2) == 0 {
		g := s.cur
		// half of the stalls are short, the other half last until nobody else can run
		if s.finerng.intn(2) == 0 {
			g.parkUntil = s.stats.Steps + 20 + uint64(s.finerng.intn(4000))
		} else {
			g.parkUntil = ^uint64(0)
		}
		s.stats.Probes["window-stall"]++
		s.stats.Steps++
		s.trace.add(g.name, "stall", "")
		s.parked = append(s.parked, g)
		s.curOp, s.curMut = "stall", false
		idx := s.choose(len(s.runnable), false)
		s.switchTo(s.runnable[idx], false)
		return
	}
	s.point("yw", false)
}

// ExitPanic is raised by OsExit so that the harness can observe exit codes.
type ExitPanic struct{ Code int }

func (e ExitPanic) String() string { return fmt.Sprintf("os.Exit(%d)", e.Code) }

// OsExit replaces os.Exit in the rewritten tree.
func OsExit(code int) {
	if !s.active {
		os.Exit(code)
	}
	panic(ExitPanic{code})
}

// ---- primitives used by the sync replacements ----

// Waiter list helpers: the sync package keeps []*G lists through these.
type WaitList struct{ gs []*G }

func (w *WaitList) Park(reason string) {
	w.gs = append(w.gs, s.cur)
	s.block(reason)
}

func (w *WaitList) WakeAll() {
	gs := w.gs
	w.gs = nil
	for _, g := range gs {
		s.ready(g)
	}
}

func (w *WaitList) WakeOne() {
	if len(w.gs) == 0 {
		return
	}
	g := w.gs[0]
	w.gs = w.gs[1:]
	s.ready(g)
}

func (w *WaitList) Len() int { return len(w.gs) }

// Misuse reports an illegal use of a synchronisation primitive (what the real
// runtime would report with a fatal error or panic).
func Misuse(msg string) {
	if !s.active {
		panic(msg)
	}
	panic("sync misuse: " + msg)
}

// Live returns the number of live simulated goroutines.
func Live() int { return s.nlive }
