package simrt

import (
	"fmt"
	"unsafe"
)

// Happens-before tracking (vector clocks) over the simulated synchronisation
// operations, and a write-write race check on the locations the rewriter
// instruments: read-modify-write windows (YW) and map assignments (MW).
//
// The simulator runs one goroutine at a time, so it can never execute two map
// writes "at the same time" the way a multi-core machine does; Go's runtime
// aborts such a program with "fatal error: concurrent map writes". Two writes
// to one map by different goroutines with no happens-before edge between them
// are exactly the situation in which that abort is a possible execution, so the
// check reports them. Only edges the Go memory model guarantees are used (go
// statement, Mutex/RWMutex unlock -> lock, WaitGroup Done -> Wait, Once,
// sync.Map and atomic operations); joining more than needed could only hide a
// race, never invent one.

// VC is a vector clock indexed by goroutine id.
type VC []uint64

func (v VC) get(i int) uint64 {
	if i < len(v) {
		return v[i]
	}
	return 0
}

func join(a, b VC) VC {
	if len(b) > len(a) {
		n := make(VC, len(b))
		copy(n, a)
		a = n
	}
	for i, x := range b {
		if x > a[i] {
			a[i] = x
		}
	}
	return a
}

func (g *G) tick() {
	for len(g.vc) <= g.id {
		g.vc = append(g.vc, 0)
	}
	g.vc[g.id]++
}

// Clock is embedded in every simulated synchronisation object.
type Clock struct{ vc VC }

// Release publishes the current goroutine's history through c.
func Release(c *Clock) {
	if !s.active || s.cur == nil {
		return
	}
	c.vc = join(c.vc, s.cur.vc)
	s.cur.tick()
}

// Acquire makes everything published through c happen before what follows.
func Acquire(c *Clock) {
	if !s.active || s.cur == nil {
		return
	}
	s.cur.vc = join(s.cur.vc, c.vc)
}

// SyncAddr is an acquire+release on the clock of a raw address (sync/atomic functions).
func SyncAddr(p unsafe.Pointer) {
	if !s.active || s.cur == nil {
		return
	}
	if s.addrClk == nil {
		s.addrClk = map[unsafe.Pointer]*Clock{}
	}
	c := s.addrClk[p]
	if c == nil {
		c = &Clock{}
		s.addrClk[p] = c
	}
	Acquire(c)
	Release(c)
}

// AcquireAddr is the acquire half of SyncAddr (atomic loads: they observe what
// earlier atomic writes published and publish nothing themselves).
func AcquireAddr(p unsafe.Pointer) {
	if !s.active || s.cur == nil {
		return
	}
	if c := s.addrClk[p]; c != nil {
		Acquire(c)
	}
}

// readAccess records a read by the current goroutine and reports a race with
// the last writer when no happens-before edge orders write and read.
func readAccess(loc unsafe.Pointer, kind, site string) {
	if loc == nil || s.cur == nil {
		return
	}
	g := s.cur
	if len(g.vc) <= g.id || g.vc[g.id] == 0 {
		g.tick()
	}
	if w, ok := s.writes[loc]; ok && w.gid != g.id && w.clk > g.vc.get(w.gid) {
		reportRace(kind, w.site, site, w.name, g.name)
	}
	if s.reads == nil {
		s.reads = map[unsafe.Pointer]*readSet{}
	}
	rs := s.reads[loc]
	if rs == nil {
		rs = &readSet{}
		s.reads[loc] = rs
	}
	for len(rs.clk) <= g.id {
		rs.clk = append(rs.clk, 0)
		rs.site = append(rs.site, "")
	}
	rs.clk[g.id] = g.vc[g.id]
	rs.site[g.id] = site
}

// readSet is the vector of the last read of a location by every goroutine.
type readSet struct {
	clk  VC
	site []string
}

func reportRace(kind, siteA, siteB, nameA, nameB string) {
	key := kind + "@" + minStr(siteA, siteB) + "+" + maxStr(siteA, siteB)
	if s.raceSeen == nil {
		s.raceSeen = map[string]bool{}
	}
	if !s.raceSeen[key] && len(s.stats.Races) < 20 {
		s.raceSeen[key] = true
		s.stats.Races = append(s.stats.Races, fmt.Sprintf("%s|%s|%s|goroutines %s and %s", kind, siteA, siteB, nameA, nameB))
	}
}

type lastWrite struct {
	gid  int
	clk  uint64
	site string
	name string
}

// writeAccess records a write by the current goroutine and reports a race with
// the previous writer when no happens-before edge orders the two.
func writeAccess(loc unsafe.Pointer, kind, site string) {
	if loc == nil || s.cur == nil {
		return
	}
	if s.writes == nil {
		s.writes = map[unsafe.Pointer]lastWrite{}
	}
	g := s.cur
	if len(g.vc) <= g.id || g.vc[g.id] == 0 {
		g.tick()
	}
	if w, ok := s.writes[loc]; ok && w.gid != g.id && w.clk > g.vc.get(w.gid) {
		reportRace(kind, w.site, site, w.name, g.name)
	}
	// write after an unordered read by another goroutine
	if rs := s.reads[loc]; rs != nil {
		rk := "read-update"
		if kind == "map-write" {
			rk = "map-read-write"
		}
		for gid, c := range rs.clk {
			if gid != g.id && c > 0 && c > g.vc.get(gid) {
				reportRace(rk, rs.site[gid], site, s.all[gid].name, g.name)
			}
		}
	}
	s.writes[loc] = lastWrite{g.id, g.vc[g.id], site, g.name}
}

func minStr(a, b string) string {
	if a < b {
		return a
	}
	return b
}

func maxStr(a, b string) string {
	if a < b {
		return b
	}
	return a
}

// MW is inserted by the rewriter before every assignment to (or delete from) a
// map that is reachable through a field, an element, a dereference or a
// package-level variable.
func MW[M ~map[K]V, K comparable, V any](m M, site string) {
	if !s.active || m == nil {
		return
	}
	// the map header pointer identifies the map whatever variable holds it
	writeAccess(*(*unsafe.Pointer)(unsafe.Pointer(&m)), "map-write", site)
}

// MR is inserted by the rewriter before statements that read a map reachable
// through a field, element, dereference or package-level variable. Only while
// more than one goroutine is alive (phase 1); later phases are sequential.
func MR[M ~map[K]V, K comparable, V any](m M, site string) {
	if !s.active || s.nlive < 2 || m == nil {
		return
	}
	readAccess(*(*unsafe.Pointer)(unsafe.Pointer(&m)), "map-read-write", site)
}

// WR is inserted by the rewriter before every plain assignment to a location
// reachable through a field, element, dereference or package-level variable.
// Only while more than one goroutine is alive (phase 1).
func WR[T any](p *T, site string) {
	if !s.active || s.nlive < 2 {
		return
	}
	writeAccess(unsafe.Pointer(p), "update", site)
}

// RD is inserted by the rewriter before statements that unconditionally read a
// field of a struct that carries its own lock (a struct with a sync.Mutex,
// RWMutex, WaitGroup, Once, Map or atomic field): the state the code itself
// declares to be shared. Only while more than one goroutine is alive.
func RD[T any](p *T, site string) {
	if !s.active || s.nlive < 2 {
		return
	}
	readAccess(unsafe.Pointer(p), "read-update", site)
}
