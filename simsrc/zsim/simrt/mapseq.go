package simrt

import (
	"fmt"
	"iter"
	"reflect"
	"sort"
	"strings"
)

// MapSeq2 replaces `range m` over a Go map in the rewritten tree. It snapshots
// the keys, puts them in a canonical order that does not depend on addresses
// or on the runtime's hash seed, and then applies the permutation the run's
// map-order stream dictates. Entries deleted before they are reached are
// skipped, like in a native map iteration.
func MapSeq2[M ~map[K]V, K comparable, V any](m M, site string) iter.Seq2[K, V] {
	return func(yield func(K, V) bool) {
		if s.active && s.nlive > 1 {
			MR(m, site)
		}
		if len(m) == 0 {
			return
		}
		keys := make([]K, 0, len(m))
		for k := range m {
			keys = append(keys, k)
		}
		if len(keys) > 1 {
			canonicalise(keys)
			if s.active {
				perm := permutation(len(keys), site)
				if perm != nil {
					nk := make([]K, len(keys))
					for i, p := range perm {
						nk[i] = keys[p]
					}
					keys = nk
				}
			}
		}
		for _, k := range keys {
			v, ok := m[k]
			if !ok {
				continue
			}
			if !yield(k, v) {
				return
			}
		}
	}
}

// PermuteAny permutes an already deterministic key list (sync.Map.Range).
func PermuteAny(keys []any, site string) []any {
	if !s.active || len(keys) < 2 {
		return keys
	}
	perm := permutation(len(keys), site)
	if perm == nil {
		return keys
	}
	nk := make([]any, len(keys))
	for i, p := range perm {
		nk[i] = keys[p]
	}
	return nk
}

// permutation returns nil for identity.
func permutation(n int, site string) []int {
	s.stats.MapCalls++
	s.stats.MapSitesSeen[site]++
	if s.mapOnly != nil && !s.mapOnly[site] {
		return nil
	}
	switch s.plan.MapMode {
	case "", "identity":
		return nil
	case "reverse":
		p := make([]int, n)
		for i := range p {
			p[i] = n - 1 - i
		}
		s.stats.MapPermuted++
		return p
	case "rotate":
		// what the Go runtime does in practice for small maps: random start, wrap around
		p := make([]int, n)
		st := s.maprng.intn(n)
		for i := range p {
			p[i] = (st + i) % n
		}
		if st != 0 {
			s.stats.MapPermuted++
		}
		return p
	default: // random
		p := make([]int, n)
		for i := range p {
			p[i] = i
		}
		changed := false
		for i := n - 1; i > 0; i-- {
			j := s.maprng.intn(i + 1)
			if i != j {
				changed = true
			}
			p[i], p[j] = p[j], p[i]
		}
		if changed {
			s.stats.MapPermuted++
		}
		return p
	}
}

func canonicalise[K comparable](keys []K) {
	var zero K
	switch reflect.TypeOf(&zero).Elem().Kind() {
	case reflect.String:
		sort.Slice(keys, func(i, j int) bool {
			return reflect.ValueOf(keys[i]).String() < reflect.ValueOf(keys[j]).String()
		})
		return
	case reflect.Int, reflect.Int8, reflect.Int16, reflect.Int32, reflect.Int64:
		sort.Slice(keys, func(i, j int) bool {
			return reflect.ValueOf(keys[i]).Int() < reflect.ValueOf(keys[j]).Int()
		})
		return
	case reflect.Uint, reflect.Uint8, reflect.Uint16, reflect.Uint32, reflect.Uint64, reflect.Uintptr:
		sort.Slice(keys, func(i, j int) bool {
			return reflect.ValueOf(keys[i]).Uint() < reflect.ValueOf(keys[j]).Uint()
		})
		return
	}
	// pointers, interfaces, structs: order by an address-free description
	type kd struct {
		k K
		d string
	}
	ks := make([]kd, len(keys))
	for i, k := range keys {
		ks[i] = kd{k, Describe(reflect.ValueOf(k), 3)}
	}
	sort.SliceStable(ks, func(i, j int) bool { return ks[i].d < ks[j].d })
	for i := range ks {
		keys[i] = ks[i].k
		if i > 0 && ks[i].d == ks[i-1].d && s.active {
			s.stats.MapTies++
		}
	}
}

// Describe renders a value without any address so that it is stable across
// processes: basic values, and recursively (to the given depth) the exported
// basic, pointer, interface and struct fields of structs.
func Describe(v reflect.Value, depth int) string {
	var b strings.Builder
	describe(&b, v, depth)
	return b.String()
}

func describe(b *strings.Builder, v reflect.Value, depth int) {
	if !v.IsValid() {
		b.WriteString("<nil>")
		return
	}
	switch v.Kind() {
	case reflect.Bool, reflect.Int, reflect.Int8, reflect.Int16, reflect.Int32, reflect.Int64,
		reflect.Uint, reflect.Uint8, reflect.Uint16, reflect.Uint32, reflect.Uint64, reflect.Uintptr,
		reflect.Float32, reflect.Float64, reflect.String:
		fmt.Fprintf(b, "%v", v)
	case reflect.Pointer, reflect.Interface:
		if v.IsNil() {
			b.WriteString("nil")
			return
		}
		if depth <= 0 {
			b.WriteString(v.Elem().Type().String())
			return
		}
		describe(b, v.Elem(), depth)
	case reflect.Struct:
		t := v.Type()
		b.WriteString(t.Name())
		if depth <= 0 {
			return
		}
		b.WriteString("{")
		for i := 0; i < v.NumField(); i++ {
			f := t.Field(i)
			fv := v.Field(i)
			switch fv.Kind() {
			case reflect.Map, reflect.Func, reflect.Chan, reflect.UnsafePointer:
				continue
			case reflect.Slice, reflect.Array:
				fmt.Fprintf(b, "%s:#%d,", f.Name, fv.Len())
				continue
			}
			b.WriteString(f.Name)
			b.WriteString(":")
			describe(b, fv, depth-1)
			b.WriteString(",")
		}
		b.WriteString("}")
	case reflect.Slice, reflect.Array:
		fmt.Fprintf(b, "#%d", v.Len())
	default:
		b.WriteString(v.Type().String())
	}
}
