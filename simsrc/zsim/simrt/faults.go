package simrt

import (
	"fmt"
	"io"
	"io/fs"
	"os"
	"os/exec"
	"strings"
	"syscall"
)

// Fault names one injected environment failure: the Ordinal-th call (0-based,
// counted per Kind within one compile) of the wrapped function fails in Mode.
type Fault struct {
	Kind    string `json:"kind"`    // readfile|stat|mkdirall|writefile|removeall|create|open|readdir|exec
	Ordinal int    `json:"ordinal"` //
	Mode    string `json:"mode"`    // enoent|eio|eacces|enospc|enotdir|short|torn|partial|exit1|signal|notfound|killed-partial
}

func errnoFor(mode string) error {
	switch mode {
	case "enoent":
		return syscall.ENOENT
	case "eacces":
		return syscall.EACCES
	case "enospc":
		return syscall.ENOSPC
	case "enotdir":
		return syscall.ENOTDIR
	case "emfile":
		return syscall.EMFILE
	default:
		return syscall.EIO
	}
}

// fault returns the mode to inject for this call, or "".
func fault(kind, arg string) string {
	if !s.active {
		return ""
	}
	n := s.faultOrd[kind]
	s.faultOrd[kind] = n + 1
	s.stats.FaultSites[kind]++
	for _, f := range s.plan.Faults {
		if f.Kind == kind && f.Ordinal == n {
			s.stats.FaultsFired = append(s.stats.FaultsFired, fmt.Sprintf("%s#%d:%s:%s@%s", kind, n, f.Mode, shortPath(arg), callerSite(3)))
			return f.Mode
		}
	}
	return ""
}

func shortPath(p string) string {
	if i := strings.LastIndex(p, "/"); i >= 0 {
		return p[i+1:]
	}
	return p
}

func OsReadFile(name string) ([]byte, error) {
	Point("os.readfile", false)
	Probe("readfile:" + name)
	switch m := fault("readfile", name); m {
	case "":
		return os.ReadFile(name)
	case "short":
		data, err := os.ReadFile(name)
		if err != nil {
			return data, err
		}
		return data[:len(data)/2], &fs.PathError{Op: "read", Path: name, Err: syscall.EIO}
	case "torn":
		// the file was being rewritten by somebody else: a prefix is read successfully
		data, err := os.ReadFile(name)
		if err != nil {
			return data, err
		}
		return data[:len(data)/2], nil
	default:
		return nil, &fs.PathError{Op: "open", Path: name, Err: errnoFor(m)}
	}
}

func OsStat(name string) (os.FileInfo, error) {
	Point("os.stat", false)
	if m := fault("stat", name); m != "" {
		return nil, &fs.PathError{Op: "stat", Path: name, Err: errnoFor(m)}
	}
	return os.Stat(name)
}

func OsMkdirAll(path string, perm os.FileMode) error {
	Point("os.mkdirall", false)
	if m := fault("mkdirall", path); m != "" {
		return &fs.PathError{Op: "mkdir", Path: path, Err: errnoFor(m)}
	}
	return os.MkdirAll(path, perm)
}

func OsWriteFile(name string, data []byte, perm os.FileMode) error {
	Point("os.writefile", false)
	switch m := fault("writefile", name); m {
	case "":
		return os.WriteFile(name, data, perm)
	case "partial":
		// half of the data reaches the disk, then the device is full
		_ = os.WriteFile(name, data[:len(data)/2], perm)
		return &fs.PathError{Op: "write", Path: name, Err: syscall.ENOSPC}
	default:
		return &fs.PathError{Op: "open", Path: name, Err: errnoFor(m)}
	}
}

func OsRemoveAll(path string) error {
	Point("os.removeall", false)
	if m := fault("removeall", path); m != "" {
		return &fs.PathError{Op: "unlinkat", Path: path, Err: errnoFor(m)}
	}
	return os.RemoveAll(path)
}

func OsRemove(path string) error {
	Point("os.remove", false)
	if m := fault("remove", path); m != "" {
		return &fs.PathError{Op: "remove", Path: path, Err: errnoFor(m)}
	}
	return os.Remove(path)
}

func OsCreate(name string) (*os.File, error) {
	Point("os.create", false)
	if m := fault("create", name); m != "" {
		return nil, &fs.PathError{Op: "open", Path: name, Err: errnoFor(m)}
	}
	return os.Create(name)
}

func OsOpen(name string) (*os.File, error) {
	Point("os.open", false)
	if m := fault("open", name); m != "" {
		return nil, &fs.PathError{Op: "open", Path: name, Err: errnoFor(m)}
	}
	return os.Open(name)
}

func OsReadDir(name string) ([]os.DirEntry, error) {
	Point("os.readdir", false)
	if m := fault("readdir", name); m != "" {
		return nil, &fs.PathError{Op: "open", Path: name, Err: errnoFor(m)}
	}
	return os.ReadDir(name)
}

// ExecCommand replaces exec.Command. A faulted call is redirected to a
// program that behaves like the failing tool.
func ExecCommand(name string, arg ...string) *exec.Cmd {
	Point("exec.command", false)
	switch m := fault("exec", name); m {
	case "":
		return exec.Command(name, arg...)
	case "notfound":
		return exec.Command("/nonexistent-verif/" + shortPath(name))
	case "signal":
		return exec.Command("/bin/sh", "-c", "kill -KILL $$")
	case "killed-partial":
		// the tool is killed after it started to write its output file
		out := ""
		for i, a := range arg {
			if a == "-o" && i+1 < len(arg) {
				out = arg[i+1]
			}
		}
		if out == "" {
			return exec.Command("/bin/sh", "-c", "kill -KILL $$")
		}
		return exec.Command("/bin/sh", "-c", `printf 'PARTIAL' > "$0"; kill -KILL $$`, out)
	default: // exit1
		return exec.Command("/bin/sh", "-c", "echo 'injected tool failure' >&2; exit 1")
	}
}

var _ = io.EOF
