//go:build !js && !wasm

// Harness entry point of the simulated compiler. The rewriter renames the
// compiler's own main to ferretMain; this file provides main, reads a job,
// and runs a history of compiler invocations, each inside the deterministic
// simulator, in this one process.
package main

import (
	"crypto/sha256"
	"encoding/hex"
	"encoding/json"
	"flag"
	"fmt"
	"io"
	"os"
	"path/filepath"
	"runtime/debug"
	"sort"
	"strings"

	"compiler/zsim/simrt"
)

type compileJob struct {
	Argv    []string          `json:"argv"`     // arguments of the ferret command line
	Plan    simrt.Plan        `json:"plan"`     // schedule, map order, faults
	Collect []string          `json:"collect"`  // files or directories whose content is part of the observable
	SnapDir string            `json:"snap_dir"` // if set, collected files are copied here
	Env     map[string]string `json:"env"`
	Cwd     string            `json:"cwd"`
}

type job struct {
	Compiles []compileJob `json:"compiles"`
	WorkDir  string       `json:"work_dir"` // stdout/stderr capture files live here
	Report   string       `json:"report"`   // where the JSON report is written
}

type fileObs struct {
	Name string `json:"name"`
	Size int64  `json:"size"`
	Sha  string `json:"sha"`
}

type compileResult struct {
	Exit   int         `json:"exit"`
	Stdout string      `json:"stdout"`
	Stderr string      `json:"stderr"`
	Files  []fileObs   `json:"files"`
	Sim    simrt.Stats `json:"sim"`
	Done   bool        `json:"done"` // false: the process ended inside this compile (crash, deadlock, hang)
}

type reportT struct {
	Results []compileResult `json:"results"`
}

var (
	theJob    job
	theReport reportT
	realOut   = os.Stdout
	realErr   = os.Stderr
	capOut    *os.File
	capErr    *os.File
)

func writeReport() {
	data, _ := json.Marshal(theReport)
	if theJob.Report == "" {
		realOut.Write(data)
		return
	}
	tmp := theJob.Report + ".tmp"
	if err := os.WriteFile(tmp, data, 0644); err != nil {
		fmt.Fprintln(realErr, "harness: cannot write report:", err)
		os.Exit(4)
	}
	os.Rename(tmp, theJob.Report)
}

func readCap(f *os.File) string {
	if f == nil {
		return ""
	}
	name := f.Name()
	f.Close()
	data, _ := os.ReadFile(name)
	if len(data) > 1<<20 {
		data = data[:1<<20]
	}
	return string(data)
}

func collect(paths []string, snap string) []fileObs {
	var out []fileObs
	for _, root := range paths {
		st, err := os.Lstat(root)
		if err != nil {
			continue
		}
		if !st.IsDir() {
			out = append(out, obsFile(root, filepath.Base(root), snap))
			continue
		}
		base := filepath.Base(root)
		filepath.Walk(root, func(p string, info os.FileInfo, err error) error {
			if err != nil || info.IsDir() {
				return nil
			}
			r, _ := filepath.Rel(root, p)
			out = append(out, obsFile(p, base+"/"+filepath.ToSlash(r), snap))
			return nil
		})
	}
	sort.Slice(out, func(i, j int) bool { return out[i].Name < out[j].Name })
	return out
}

func obsFile(path, name, snap string) fileObs {
	f, err := os.Open(path)
	if err != nil {
		return fileObs{Name: name, Size: -1}
	}
	defer f.Close()
	h := sha256.New()
	var w io.Writer = h
	if snap != "" {
		dst := filepath.Join(snap, name)
		os.MkdirAll(filepath.Dir(dst), 0755)
		if df, err := os.Create(dst); err == nil {
			defer df.Close()
			w = io.MultiWriter(h, df)
		}
	}
	n, _ := io.Copy(w, f)
	return fileObs{Name: name, Size: n, Sha: hex.EncodeToString(h.Sum(nil))}
}

func main() {
	debug.SetMaxStack(256 << 20)
	if len(os.Args) != 2 {
		fmt.Fprintln(os.Stderr, "usage: simferret <job.json>")
		os.Exit(4)
	}
	data, err := os.ReadFile(os.Args[1])
	if err != nil {
		fmt.Fprintln(os.Stderr, "harness:", err)
		os.Exit(4)
	}
	if err := json.Unmarshal(data, &theJob); err != nil {
		fmt.Fprintln(os.Stderr, "harness:", err)
		os.Exit(4)
	}
	os.MkdirAll(theJob.WorkDir, 0755)
	for i := range theJob.Compiles {
		runOne(i, &theJob.Compiles[i])
	}
	writeReport()
}

func runOne(i int, c *compileJob) {
	theReport.Results = append(theReport.Results, compileResult{})
	res := &theReport.Results[i]

	for k, v := range c.Env {
		os.Setenv(k, v)
	}
	if c.Cwd != "" {
		os.Chdir(c.Cwd)
	}
	capOut, _ = os.Create(filepath.Join(theJob.WorkDir, fmt.Sprintf("stdout.%d", i)))
	capErr, _ = os.Create(filepath.Join(theJob.WorkDir, fmt.Sprintf("stderr.%d", i)))
	os.Stdout, os.Stderr = capOut, capErr
	os.Args = append([]string{"ferret"}, c.Argv...)
	flag.CommandLine = flag.NewFlagSet(os.Args[0], flag.ContinueOnError)
	flag.CommandLine.SetOutput(capErr)

	finish := func() {
		os.Stdout, os.Stderr = realOut, realErr
		res.Stdout = readCap(capOut)
		res.Stderr = readCap(capErr)
		res.Files = collect(c.Collect, c.SnapDir)
	}

	fatal := func(kind, msg, stack string) {
		// called by the simulator with the token held; ends the process
		res.Sim = simrt.CurrentStats()
		res.Exit = -1
		finish()
		writeReport()
		os.Exit(0)
	}

	simrt.Begin(c.Plan, fatal)
	func() {
		defer func() {
			if r := recover(); r != nil {
				if e, ok := r.(simrt.ExitPanic); ok {
					res.Exit = e.Code
					return
				}
				st := simrt.CurrentStats()
				st.Crash = fmt.Sprintf("panic in goroutine 0: %v", r)
				st.CrashStack = string(debug.Stack())
				res.Sim = st
				res.Exit = -1
				finish()
				// a panic in the real compiler ends the process: nothing more of the history runs
				res.Sim.Crash = st.Crash
				writeReport()
				os.Exit(0)
			}
		}()
		ferretMain()
	}()
	res.Sim = simrt.End()
	res.Done = true
	finish()
	if strings.Contains(os.Getenv("ZSIM_DEBUG"), "1") {
		fmt.Fprintf(realErr, "compile %d: exit=%d steps=%d decisions=%d\n", i, res.Exit, res.Sim.Steps, res.Sim.Decisions)
	}
}
