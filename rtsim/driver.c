/* rtsim driver: executes operation scripts against the Ferret runtime containers
 * (runtime/core/map.c, array.c, optional.c, runtime/libs/len.c, append.c as
 * shipped, compiled with -Dmalloc=sim_malloc -Dcalloc=sim_calloc
 * -Drealloc=sim_realloc -Dfree=sim_free under ASan+UBSan) and prints one result
 * line per operation. The simulated allocator below takes every decision from
 * the script: which allocation fails, whether realloc moves, what fresh memory
 * contains, what a zero-size request returns, and the exhaustion cap.
 *
 * Script lines (space separated):
 *   H <id>                              start of history <id>: all handles dropped, allocator reset
 *   C fill=<00|a5|ff> realloc=<move|native> zero=<null|unique> cap=<bytes>
 *   F <k>                               the k-th allocator call of the NEXT operation fails (k>=1)
 *   mnew h kind ksize vsize             kind: i32|i64|str|bytes
 *   mfrom h kind ksize vsize n k v ...  (from_pairs)
 *   mset h k v | mget h k | mopt h k dflt | mhas h k | msize h | mlen h | miter h | mfree h | mdestroy h
 *   anew h esize cap | aapp h e | aappw h e | aget h i | aset h i e | alen h | alenw h | acap h | ares h cap | afree h | adestroy h
 * Keys: i32/i64 decimal, str a token, bytes hex. Values/elements: hex.
 * Output: "<lineno> <result>" per operation, then " F=<0|1>" when a fault was armed (fired or not).
 */
#include <stdio.h>
#include <stdlib.h>
#include <string.h>
#include <stdint.h>
#include <stdbool.h>

#include "map.h"
#include "array.h"

size_t __sanitizer_get_allocated_size(const volatile void *p);

void ferret_optional_unwrap_or(const void* opt, const void* default_val, void* out, uint64_t val_size);
int32_t ferret_len_array(void* arr);
int32_t ferret_len_map(void* map);
bool ferret_append_array(void* arr, const void* elem);

/* ---------------------------------------------------------------- simulated allocator */

static struct {
    int fill;            /* byte fresh memory is filled with */
    int realloc_move;    /* 1: realloc always returns a fresh block */
    int zero_null;       /* 1: zero-size requests return NULL */
    size_t cap;          /* requests above this fail (simulated exhaustion) */
    long calls;          /* allocator calls within the current operation */
    long fail_at;        /* call number that fails within the current operation (0: none) */
    int fired;
    long total_calls, total_failed, total_moved, total_zero, total_capped;
} A = { 0xa5, 1, 0, 1u << 26, 0, 0, 0, 0, 0, 0, 0, 0 };

static int should_fail(void) {
    A.calls++;
    A.total_calls++;
    if (A.fail_at != 0 && A.calls == A.fail_at) {
        A.fired = 1;
        A.total_failed++;
        return 1;
    }
    return 0;
}

void *sim_malloc(size_t n) {
    if (should_fail()) return NULL;
    if (n > A.cap) { A.total_capped++; return NULL; }
    if (n == 0) {
        A.total_zero++;
        if (A.zero_null) return NULL;
        return malloc(1); /* unique pointer, one byte that must not be touched is fine */
    }
    void *p = malloc(n);
    if (p) memset(p, A.fill, n);
    return p;
}

void *sim_calloc(size_t a, size_t b) {
    if (should_fail()) return NULL;
    if (a != 0 && b > (size_t)-1 / a) return NULL;
    size_t n = a * b;
    if (n > A.cap) { A.total_capped++; return NULL; }
    if (n == 0) {
        A.total_zero++;
        if (A.zero_null) return NULL;
        return malloc(1);
    }
    return calloc(a, b);
}

void *sim_realloc(void *p, size_t n) {
    if (should_fail()) return NULL;          /* p unchanged, as the standard says */
    if (n > A.cap) { A.total_capped++; return NULL; }
    if (p == NULL) {
        A.calls--; A.total_calls--;           /* counted once */
        return sim_malloc(n) ;
    }
    if (n == 0) {
        A.total_zero++;
        free(p);
        if (A.zero_null) return NULL;
        return malloc(1);
    }
    if (!A.realloc_move) {
        return realloc(p, n);
    }
    size_t old = __sanitizer_get_allocated_size(p);
    void *q = malloc(n);
    if (!q) return NULL;
    memset(q, A.fill, n);
    memcpy(q, p, old < n ? old : n);
    free(p);                                  /* stale pointers into p are now use-after-free */
    A.total_moved++;
    return q;
}

void sim_free(void *p) { free(p); }

/* ---------------------------------------------------------------- helpers */

#define MAXH 8
static ferret_map_t *maps[MAXH];
static int mkind[MAXH];           /* 0 i32, 1 i64, 2 str, 3 bytes */
static size_t mks[MAXH], mvs[MAXH];
static ferret_array_t *arrs[MAXH];
static size_t aes[MAXH];

/* interned strings: never freed, so string keys stay valid like Ferret string data */
static char *interned[4096];
static int ninterned;
static const char *intern(const char *s) {
    for (int i = 0; i < ninterned; i++)
        if (strcmp(interned[i], s) == 0) {
            /* hand out a DIFFERENT pointer with equal contents half of the time: equality must be by content */
            return interned[i];
        }
    if (ninterned >= 4096) { fprintf(stderr, "driver: too many strings\n"); exit(3); }
    interned[ninterned] = strdup(s);
    return interned[ninterned++];
}
static const char *intern_copy(const char *s) {
    /* a fresh copy: same contents, different address */
    if (ninterned >= 4096) { fprintf(stderr, "driver: too many strings\n"); exit(3); }
    interned[ninterned] = strdup(s);
    return interned[ninterned++];
}

static int hexval(int c) {
    if (c >= '0' && c <= '9') return c - '0';
    if (c >= 'a' && c <= 'f') return c - 'a' + 10;
    if (c >= 'A' && c <= 'F') return c - 'A' + 10;
    return -1;
}

/* exact-size heap copy of hex bytes (ASan sees any access past the end); "-" is the empty string */
static uint8_t *hexbuf(const char *hex, size_t want) {
    size_t n = strcmp(hex, "-") == 0 ? 0 : strlen(hex) / 2;
    if (n != want) { fprintf(stderr, "driver: operand %s has %zu bytes, expected %zu\n", hex, n, want); exit(3); }
    uint8_t *b = malloc(n ? n : 1);
    for (size_t i = 0; i < n; i++) b[i] = (uint8_t)(hexval(hex[2 * i]) * 16 + hexval(hex[2 * i + 1]));
    return b;
}

static void printhex(const uint8_t *p, size_t n) {
    if (n == 0) { printf("-"); return; }
    for (size_t i = 0; i < n; i++) printf("%02x", p[i]);
}

/* key operand -> exact-size heap buffer holding the key bytes the API expects */
static void *keybuf(int h, const char *tok, int copy) {
    switch (mkind[h]) {
    case 0: { int32_t *p = malloc(4); *p = (int32_t)strtol(tok, NULL, 10); return p; }
    case 1: { int64_t *p = malloc(8); *p = (int64_t)strtoll(tok, NULL, 10); return p; }
    case 2: { const char **p = malloc(sizeof(char *)); *p = copy ? intern_copy(tok) : intern(tok); return p; }
    default: return hexbuf(tok, mks[h]);
    }
}

static void printkey(int h, const void *k) {
    switch (mkind[h]) {
    case 0: printf("%d", *(const int32_t *)k); break;
    case 1: printf("%lld", (long long)*(const int64_t *)k); break;
    case 2: printf("%s", *(const char *const *)k); break;
    default: printhex(k, mks[h]);
    }
}

static int kindof(const char *s) {
    if (!strcmp(s, "i32")) return 0;
    if (!strcmp(s, "i64")) return 1;
    if (!strcmp(s, "str")) return 2;
    return 3;
}

static void reset_all(void) {
    for (int i = 0; i < MAXH; i++) {
        if (maps[i]) { ferret_map_destroy(maps[i]); maps[i] = NULL; }
        if (arrs[i]) { ferret_array_destroy(arrs[i]); arrs[i] = NULL; }
    }
}

#define MAXTOK 600
int main(int argc, char **argv) {
    if (argc != 2) { fprintf(stderr, "usage: driver <script>\n"); return 3; }
    FILE *f = fopen(argv[1], "r");
    if (!f) { perror("script"); return 3; }
    static char line[1 << 16];
    long lineno = 0;
    long pending_fault = 0;
    setvbuf(stdout, NULL, _IOLBF, 0);
    while (fgets(line, sizeof line, f)) {
        lineno++;
        char *tok[MAXTOK];
        int nt = 0;
        for (char *p = strtok(line, " \t\r\n"); p && nt < MAXTOK; p = strtok(NULL, " \t\r\n")) tok[nt++] = p;
        if (nt == 0 || tok[0][0] == '#') continue;
        const char *op = tok[0];
        if (!strcmp(op, "H")) {
            A.fail_at = 0;
            reset_all();
            printf("%ld H %s\n", lineno, nt > 1 ? tok[1] : "?");
            continue;
        }
        if (!strcmp(op, "C")) {
            for (int i = 1; i < nt; i++) {
                if (!strncmp(tok[i], "fill=", 5)) A.fill = (int)strtol(tok[i] + 5, NULL, 16);
                else if (!strncmp(tok[i], "realloc=", 8)) A.realloc_move = !strcmp(tok[i] + 8, "move");
                else if (!strncmp(tok[i], "zero=", 5)) A.zero_null = !strcmp(tok[i] + 5, "null");
                else if (!strncmp(tok[i], "cap=", 4)) A.cap = (size_t)strtoull(tok[i] + 4, NULL, 10);
            }
            continue;
        }
        if (!strcmp(op, "F")) { pending_fault = strtol(tok[1], NULL, 10); continue; }
        if (!strcmp(op, "STATS")) {
            printf("%ld STATS calls=%ld failed=%ld moved=%ld zero=%ld capped=%ld\n", lineno, A.total_calls, A.total_failed, A.total_moved, A.total_zero, A.total_capped);
            continue;
        }

        /* an operation: arm the fault for its duration */
        int armed = pending_fault != 0;
        A.calls = 0; A.fired = 0; A.fail_at = pending_fault; pending_fault = 0;
        int h = nt > 1 ? atoi(tok[1]) : 0;
        if (h < 0 || h >= MAXH) { fprintf(stderr, "driver: bad handle\n"); return 3; }
        printf("%ld ", lineno);

        if (!strcmp(op, "mnew")) {
            if (maps[h]) { ferret_map_destroy(maps[h]); maps[h] = NULL; }
            mkind[h] = kindof(tok[2]); mks[h] = strtoul(tok[3], NULL, 10); mvs[h] = strtoul(tok[4], NULL, 10);
            switch (mkind[h]) {
            case 0: maps[h] = ferret_map_new_i32(mks[h], mvs[h]); break;
            case 1: maps[h] = ferret_map_new_i64(mks[h], mvs[h]); break;
            case 2: maps[h] = ferret_map_new_str(mks[h], mvs[h]); break;
            default: maps[h] = ferret_map_new_bytes(mks[h], mvs[h]);
            }
            printf("%s", maps[h] ? "ok" : "null");
        } else if (!strcmp(op, "mfrom")) {
            if (maps[h]) { ferret_map_destroy(maps[h]); maps[h] = NULL; }
            mkind[h] = kindof(tok[2]); mks[h] = strtoul(tok[3], NULL, 10); mvs[h] = strtoul(tok[4], NULL, 10);
            size_t n = strtoul(tok[5], NULL, 10);
            uint8_t *keys = malloc(n * mks[h] ? n * mks[h] : 1), *vals = malloc(n * mvs[h] ? n * mvs[h] : 1);
            for (size_t i = 0; i < n; i++) {
                void *k = keybuf(h, tok[6 + 2 * i], 0);
                memcpy(keys + i * mks[h], k, mks[h]);
                free(k);
                uint8_t *v = hexbuf(tok[7 + 2 * i], mvs[h]);
                memcpy(vals + i * mvs[h], v, mvs[h]);
                free(v);
            }
            switch (mkind[h]) {
            case 0: maps[h] = ferret_map_from_pairs_i32(mks[h], mvs[h], keys, vals, n); break;
            case 1: maps[h] = ferret_map_from_pairs_i64(mks[h], mvs[h], keys, vals, n); break;
            case 2: maps[h] = ferret_map_from_pairs_str(mks[h], mvs[h], keys, vals, n); break;
            default: maps[h] = ferret_map_from_pairs_bytes(mks[h], mvs[h], keys, vals, n);
            }
            free(keys); free(vals);   /* the map must have copied what it needs */
            printf("%s", maps[h] ? "ok" : "null");
        } else if (!strcmp(op, "mset")) {
            void *k = keybuf(h, tok[2], 1);
            uint8_t *v = hexbuf(tok[3], mvs[h]);
            bool ok = ferret_map_set(maps[h], k, v);
            memset(v, 0xee, mvs[h]); free(v);   /* caller's buffers die: the map must not alias them */
            if (mkind[h] != 2) memset(k, 0xee, mks[h]);
            free(k);
            printf("%d", ok ? 1 : 0);
        } else if (!strcmp(op, "mget")) {
            void *k = keybuf(h, tok[2], 1);
            void *v = ferret_map_get(maps[h], k);
            free(k);
            if (!v) printf("none"); else printhex(v, mvs[h]);
        } else if (!strcmp(op, "mopt")) {
            void *k = keybuf(h, tok[2], 1);
            size_t vs = maps[h] ? mvs[h] : 0;
            uint8_t *out = malloc(vs + 1);      /* exactly value bytes + flag */
            memset(out, 0x77, vs + 1);
            ferret_map_get_optional_out(maps[h], k, out);
            free(k);
            printf("%d ", out[vs]);
            if (out[vs]) printhex(out, vs); else printf("x");
            /* unwrap with a default */
            uint8_t *dflt = hexbuf(tok[3], mvs[h]);
            uint8_t *res = malloc(mvs[h] ? mvs[h] : 1);
            memset(res, 0x55, mvs[h] ? mvs[h] : 1);
            if (maps[h]) {
                ferret_optional_unwrap_or(out, dflt, res, mvs[h]);
                printf(" ");
                printhex(res, mvs[h]);
            } else {
                printf(" nomap");
            }
            free(out); free(dflt); free(res);
        } else if (!strcmp(op, "mhas")) {
            void *k = keybuf(h, tok[2], 1);
            printf("%d", ferret_map_has(maps[h], k) ? 1 : 0);
            free(k);
        } else if (!strcmp(op, "msize")) {
            printf("%zu", ferret_map_size(maps[h]));
        } else if (!strcmp(op, "mlen")) {
            printf("%d", ferret_len_map(maps[h]));
        } else if (!strcmp(op, "miter")) {
            ferret_map_iter_t it;
            size_t n = 0;
            if (ferret_map_iter_begin(maps[h], &it)) {
                void *k = NULL, *v = NULL;
                while (n < 100000 && ferret_map_iter_next(maps[h], &it, &k, &v)) {
                    printkey(h, k); printf("="); printhex(v, mvs[h]); printf(" ");
                    n++;
                }
            }
            printf("n=%zu", n);
        } else if (!strcmp(op, "mfree")) {
            if (maps[h]) ferret_map_free(maps[h]);
            printf("ok");
        } else if (!strcmp(op, "mdestroy")) {
            ferret_map_destroy(maps[h]); maps[h] = NULL;
            printf("ok");
        } else if (!strcmp(op, "anew")) {
            if (arrs[h]) { ferret_array_destroy(arrs[h]); arrs[h] = NULL; }
            aes[h] = strtoul(tok[2], NULL, 10);
            arrs[h] = ferret_array_new(aes[h], (int32_t)strtol(tok[3], NULL, 10));
            printf("%s", arrs[h] ? "ok" : "null");
        } else if (!strcmp(op, "aapp") || !strcmp(op, "aappw")) {
            uint8_t *e = hexbuf(tok[2], aes[h]);
            bool ok = op[4] == 'w' ? ferret_append_array(arrs[h], e) : ferret_array_append(arrs[h], e);
            memset(e, 0xee, aes[h]); free(e);
            printf("%d", ok ? 1 : 0);
        } else if (!strcmp(op, "aget")) {
            void *p = ferret_array_get(arrs[h], (int32_t)strtol(tok[2], NULL, 10));
            if (!p) printf("none"); else printhex(p, aes[h]);
        } else if (!strcmp(op, "aset")) {
            uint8_t *e = hexbuf(tok[3], aes[h]);
            bool ok = ferret_array_set(arrs[h], (int32_t)strtol(tok[2], NULL, 10), e);
            free(e);
            printf("%d", ok ? 1 : 0);
        } else if (!strcmp(op, "alen")) {
            printf("%d", ferret_array_len(arrs[h]));
        } else if (!strcmp(op, "alenw")) {
            printf("%d", ferret_len_array(arrs[h]));
        } else if (!strcmp(op, "acap")) {
            printf("%d", ferret_array_cap(arrs[h]));
        } else if (!strcmp(op, "ares")) {
            printf("%d", ferret_array_resize(arrs[h], (int32_t)strtol(tok[2], NULL, 10)) ? 1 : 0);
        } else if (!strcmp(op, "afree")) {
            ferret_array_free(arrs[h]);
            printf("ok");
        } else if (!strcmp(op, "adestroy")) {
            ferret_array_destroy(arrs[h]); arrs[h] = NULL;
            printf("ok");
        } else {
            fprintf(stderr, "driver: unknown op %s at line %ld\n", op, lineno);
            return 3;
        }
        if (armed) printf(" F=%d", A.fired);
        printf(" A=%ld\n", A.calls);
        A.fail_at = 0;
    }
    fclose(f);
    printf("END calls=%ld failed=%ld moved=%ld zero=%ld capped=%ld\n", A.total_calls, A.total_failed, A.total_moved, A.total_zero, A.total_capped);
    return 0;
}
