#!/bin/sh
# Builds the framework's own binaries from /verif sources only (offline).
set -e
cd "$(dirname "$0")"
export GOFLAGS=-mod=mod GOPROXY=off GOSUMDB=off GOTOOLCHAIN=local
GO=/opt/veriftools/go1.26.8/bin/go
[ -x "$GO" ] || GO=go1.26.8
mkdir -p bin evidence
"$GO" build -o bin/verifctl ./cmd/verifctl
"$GO" build -o bin/rewriter ./cmd/rewriter
