#!/bin/bash
# usage: seedsweep.sh "<ids>" "<seeds>" : quick tier of each check against /repo with other seeds, isolated VERIF_DIR
D=/var/tmp/mut/vd-sweep
rm -rf $D; mkdir -p $D/bin
cp /verif/known_findings.json /verif/properties.jsonl $D/
cp -r /verif/rtsim /verif/stub /verif/simsrc /verif/known $D/ 2>/dev/null
cp /verif/bin/rewriter $D/bin/
for id in $1; do for s in $2; do
  VERIF_SEED=$s VERIF_DIR=$D timeout 2400 /verif/bin/verifctl check $id --tier ${TIER:-quick} > /var/tmp/mut/sweep-$id-$s.log 2>&1
  echo "== $id seed=$s exit=$?"
  grep -E 'VIOLATION|class:|detail:|TROUBLE|^C[0-9]+ (quick|thorough)' /var/tmp/mut/sweep-$id-$s.log | cut -c1-260
done; done
