#!/usr/bin/env python3
"""apply.py <name> : applies one of my own deliberate breaks (DESIGN.md §7) to the scratch worktree /var/tmp/mut/m"""
import sys,re
W='/var/tmp/mut/m/'
def rep(path,old,new,count=1):
    p=W+path; s=open(p).read()
    assert old in s,(path,old[:60])
    open(p,'w').write(s.replace(old,new,count))
M={}
def m(name,check):
    def d(f): M[name]=(check,f); return f
    return d
@m('m14-1','C14')
def _(): rep('internal/codegen/wasm/emit.go','	sortStrings(importNames)\n','')
@m('m14-2','C14')
def _(): rep('internal/diagnostics/bag.go','	// Sort diagnostics by source location\n	sortDiagnostics(diagnostics)\n','')
@m('m14-3','C14')
def _(): rep('internal/codegen/wasm/emit.go','	sortStrings(funcOrder)\n','')
@m('m15-1','C15')
def _(): rep('internal/pipeline/parse.go','''	p.wg.Add(1)

	go func() {
		defer p.wg.Done()''','''	go func() {
		p.wg.Add(1)
		defer p.wg.Done()''')
@m('m15-2','C15')
def _(): rep('internal/pipeline/parse.go','''			p.reportUnresolved(importPath, err.Error(), requestedLocation)
			return''','''			p.reportUnresolved(importPath, err.Error(), requestedLocation)
			p.wg.Add(1) // keep the group open until the error has been reported
			return''')
@m('m15-3','C15')
def _(): rep('internal/context_v2/context.go','''	// Don't overwrite existing modules
	if _, exists := ctx.Modules[importPath]; exists {
		return
	}
''','')
@m('m13-1','C13')
def _(): rep('internal/pipeline/parse.go','''		if impStmt.Path == nil {
			p.ctx.ReportError("import statement missing path", &impStmt.Location)
			continue
		}
''','')
@m('m13-2','C13')
def _(): rep('internal/diagnostics/bag.go','''func (db *DiagnosticBag) Add(diag *Diagnostic) {
	db.mu.Lock()
	defer db.mu.Unlock()
''','''func (db *DiagnosticBag) Add(diag *Diagnostic) {
''')
@m('m13-3','C13')
def _(): rep('internal/pipeline/wasm_codegen_phase.go','		_ = os.Remove(outputPath)\n','')
@m('m13-4','C13')
def _(): rep('internal/pipeline/qbe_codegen_phase.go','		_ = os.Remove(execPath)\n','')
@m('m17-1','C17')
def _(): rep('runtime/core/array.c','    if (arr == NULL || index < 0 || index >= arr->length) {\n        return NULL;','    if (arr == NULL || index < 0 || index > arr->length) {\n        return NULL;')
@m('m17-2','C17')
def _(): rep('runtime/core/array.c','''        void* new_data = realloc(arr->data, arr->elem_size * new_capacity);
        if (new_data == NULL) {
            return false;
        }
        
        arr->data = new_data;
        arr->capacity = new_capacity;
    }
    
    // Append element''','''        arr->data = realloc(arr->data, arr->elem_size * new_capacity);
        if (arr->data == NULL) {
            return false;
        }
        arr->capacity = new_capacity;
    }
    
    // Append element''')
@m('m17-3','C17')
def _(): rep('runtime/core/map.c','''    map->buckets = (ferret_map_entry_t**)calloc(map->bucket_count, sizeof(ferret_map_entry_t*));
    if (map->buckets == NULL) {
        free(map);
        return NULL;
    }
''','''    map->buckets = (ferret_map_entry_t**)calloc(map->bucket_count, sizeof(ferret_map_entry_t*));
''')
@m('m17-4','C17')
def _(): rep('runtime/core/map.c','            entry->hash = hash;\n            entry->next = new_buckets[new_bucket];','            entry->next = new_buckets[new_bucket];')
@m('m08-1','C08')
def _(): rep('internal/mir/gen/builder.go','condHigh := b.emitBinary(tokens.GREATER_EQUAL_TOKEN, idxAdj, lenVal, indexType, loc)','condHigh := b.emitBinary(tokens.GREATER_TOKEN, idxAdj, lenVal, indexType, loc)')
@m('m08-2','C08')
def _(): rep('runtime/libs/panic.c','    fflush(NULL);\n','    fflush(stderr);\n')
@m('m13-5','C13')
def _(): rep('internal/diagnostics/emitter.go','''	lines := strings.Split(content, "\\n")
	sc.mu.Lock()
	sc.files[filepath] = lines
	sc.mu.Unlock()''','''	lines := strings.Split(content, "\\n")
	sc.files[filepath] = lines''')
@m('m15-4','C15')
def _(): rep('internal/context_v2/context.go','''func (ctx *CompilerContext) AddModule(importPath string, module *Module) {
	if module == nil {
		panic(fmt.Sprintf("cannot add nil module for %q", importPath))
	}

	ctx.mu.Lock()
	defer ctx.mu.Unlock()
''','''func (ctx *CompilerContext) AddModule(importPath string, module *Module) {
	if module == nil {
		panic(fmt.Sprintf("cannot add nil module for %q", importPath))
	}
''')
@m('m15-5','C15')
def _(): rep('internal/context_v2/context.go','''func (ctx *CompilerContext) HasModule(importPath string) bool {
	ctx.mu.RLock()
	defer ctx.mu.RUnlock()
''','''func (ctx *CompilerContext) HasModule(importPath string) bool {
''')

@m('m15-6','C15')
def _(): rep('internal/context_v2/context.go','''	ctx.sortedModules = sorted
}''','''	for i, j := 0, len(sorted)-1; i < j; i, j = i+1, j-1 {
		sorted[i], sorted[j] = sorted[j], sorted[i]
	}
	ctx.sortedModules = sorted
}''')
@m('m15-7','C15')
def _(): rep('internal/context_v2/context.go','''	ctx.sortedModules = sorted
}''','''	sort.Strings(sorted)
	ctx.sortedModules = sorted
}''')

@m('m15-8','C15')
def _(): rep('internal/context_v2/context.go','''	ctx.mu.Lock()
	defer ctx.mu.Unlock()
	if module, exists := ctx.Modules[importPath]; exists {
		module.Mu.Lock()
		module.Phase = phase
		module.Mu.Unlock()
	}''','''	ctx.mu.RLock() // the map is only read here
	defer ctx.mu.RUnlock()
	if module, exists := ctx.Modules[importPath]; exists {
		module.Phase = phase
	}''')

if __name__=='__main__':
    if sys.argv[1]=='list':
        for k,(c,_) in M.items(): print(k,c)
    else:
        M[sys.argv[1]][1](); print(M[sys.argv[1]][0])
