#!/bin/bash
# runs the listed own mutations one after the other; summary in /var/tmp/mut/own.log
for name in "$@"; do
  (cd /var/tmp/mut/m && git checkout -q -- . && git checkout -q --detach $(git -C /repo rev-parse HEAD))
  id=$(python3 /verif/devtools/ownmut/apply.py $name) || { echo "== $name APPLY FAILED"; continue; }
  echo "== $name ($id)"
  /verif/devtools/mutrun.sh own-$name $id
done
