#!/bin/bash
# runs the listed own mutations (name or name:CHECK) one after the other
for spec in "$@"; do
  name=${spec%%:*}; over=${spec#*:}
  (cd /var/tmp/mut/m && git checkout -q -- . && git checkout -q --detach $(git -C /repo rev-parse HEAD))
  id=$(python3 /verif/devtools/ownmut/apply.py $name) || { echo "== $name APPLY FAILED"; continue; }
  [ "$over" != "$spec" ] && id=$over
  echo "== $name ($id)"
  /verif/devtools/mutrun.sh own-$name-$id $id
done
