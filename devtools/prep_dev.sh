#!/bin/bash
# dev helper: build the simulated compiler in /var/tmp/fv-dev/sim for manual experiments
set -e
export GOFLAGS=-mod=mod GOPROXY=off GOSUMDB=off GOTOOLCHAIN=local PATH=/opt/veriftools/go1.26.8/bin:$PATH
cd /verif && go build -o bin/rewriter ./cmd/rewriter
S=/var/tmp/fv-dev/sim; rm -rf $S/src; mkdir -p $S
rsync -a --exclude .git /repo/ $S/src/
cp -r simsrc/zsim $S/src/
bin/rewriter -dir $S/src ${FINE:--fine} > $S/rewrite.json
cp simsrc/zsim_harness.go $S/src/
cd $S/src && go build -o $S/simferret .
