#!/bin/bash
# usage: mutrun.sh <name> <check-id> : runs bin/verifctl check <id> --tier quick against ${MUTDIR:-/var/tmp/mut/m} (already mutated)
# with an isolated VERIF_DIR so that replays/evidence of the experiment do not touch /verif.
name=$1; id=$2
D=/var/tmp/mut/vd-$name
rm -rf $D; mkdir -p $D/bin
cp /verif/known_findings.json /verif/properties.jsonl $D/
cp -r /verif/rtsim /verif/stub /verif/simsrc $D/
cp /verif/bin/rewriter $D/bin/
( cd ${MUTDIR:-/var/tmp/mut/m} && git diff --stat | tail -1 )
VERIF_REPO=${MUTDIR:-/var/tmp/mut/m} VERIF_DIR=$D timeout 1800 /verif/bin/verifctl check $id --tier ${TIER:-quick} > /var/tmp/mut/$name.log 2>&1
echo "exit=$?"
grep -E 'VIOLATION|class:|KNOWN|TROUBLE|^C[0-9]+ ' /var/tmp/mut/$name.log | cut -c1-220 | head -20
